import ArcaModel.Gen.AtpClientFacts
/-
  C06 / C08, translator tie: the facts about atp/client.go that the atomic steps of
  `ArcaModel/Model/AtpClient.lean` assume, checked against the table that `harness atpfacts`
  regenerates from the working tree (`ArcaModel/Gen/AtpClientFacts.lean`).  A change of the locking
  structure of client.go (a write of `readLoopRunning` that moves out of the section that decides it,
  a new critical section the model has no step for, a shared field touched without the mutex, a
  blocking read inside a critical section ...) changes the generated table and breaks one of the
  `decide`s below at `lake build`.
-/
namespace Arca.AtpClientFacts

open Arca.Gen.AtpClientFacts

/-- which model label(s) a critical section of client.go is (function, index of the section) -/
def modelSections : List (String × Nat × String) := [
  ("Execute", 1, "cSpawnW (wait-group Add for the signal writer, refused when done)"),
  ("Close", 1, "clMark"),
  ("sendErrorToAll", 1, "lDeliver of a step-fatal error without run ID"),
  ("sendErrorToAllAndStopReading", 1, "lDeliver of a decode error / server-fatal error (fan-out and flag clear)"),
  ("handleWorkDoneMessage", 1, "lDeliver of work-done"),
  ("handleSignalMessage", 1, "lDeliver of a signal (forwarded under the mutex)"),
  ("handleErrorMessage", 1, "lDeliver of a step-fatal error with run ID"),
  ("hasEntriesRemaining", 1, "lCheck (decision and flag clear)"),
  ("prepareResultChannels", 1, "cRegister (entry, signal channel, flag set, loop spawn)"),
  ("removeResultChannels", 1, "cAbandon"),
  ("getResultV2", 1, "cWait then cTake (split by the condition wait), or cTake alone")
]

def criticalSections : List (String × Nat) :=
  (regions.filter (fun r => r.idx != 0)).map (fun r => (r.fn, r.idx))

/-- F1. The critical sections of client.go are exactly the ones the model has steps for.  (The signal
    writer goroutine has none of its own: its opening check reads the context, not `done` under the
    mutex - it must never wait for the client mutex, which the read loop holds while it hands an
    emitted signal to a caller who may in turn be waiting for that writer.) -/
theorem sections_are_model_steps :
    criticalSections = modelSections.map (fun p => (p.1, p.2.1)) := by decide

def touchesShared (r : Region) : Bool := !r.reads.isEmpty || !r.writes.isEmpty

/-- F2. Outside critical sections shared state is touched only by `sendExecutionResult` ("the caller
    must have the mutex locked") ... -/
theorem unlocked_access_only_in_sendExecutionResult :
    ((regions.filter (fun r => r.idx == 0 && touchesShared r)).map (·.fn)) = ["sendExecutionResult"] := by
  decide

/-- ... and every call of `sendExecutionResult` is made inside a critical section. -/
theorem sendExecutionResult_called_locked :
    (regions.all fun r => !r.calls.contains "sendExecutionResult" || r.idx != 0) = true := by decide

def writesFlag (r : Region) : Bool :=
  r.writes.contains "readLoopRunning=false" || r.writes.contains "readLoopRunning=true" ||
  r.writes.contains "readLoopRunning"

/-- F3. `readLoopRunning` is written in three critical sections only: cleared by the loop's exit
    decision (`hasEntriesRemaining`) and by the fatal fan-out, set by the registration. -/
theorem flag_writers :
    ((regions.filter writesFlag).map fun r => (r.fn, r.idx,
        r.writes.filter (fun w => w == "readLoopRunning=false" || w == "readLoopRunning=true" || w == "readLoopRunning"))) =
      [("sendErrorToAllAndStopReading", 1, ["readLoopRunning=false"]),
       ("hasEntriesRemaining", 1, ["readLoopRunning=false"]),
       ("prepareResultChannels", 1, ["readLoopRunning=true"])] := by decide

/-- F4. The clear shares its critical section with the decision that no entry is pending (the
    section reads the entries and their results) or with the error fan-out (it ranges over the
    entries and calls `sendExecutionResult`): the repaired shape, which the model's `lCheck` /
    fatal `lDeliver` steps assume.  (Before commit 81c38a0 the clear sat in a section of its own.) -/
theorem flag_clear_with_decision :
    ((regions.filter (fun r => r.writes.contains "readLoopRunning=false")).all fun r =>
      r.idx != 0 && r.reads.contains "runningStepResultEntries" &&
      (r.reads.contains "entry.result" || r.calls.contains "sendExecutionResult")) = true := by decide

/-- F5. The set shares its section with the registration of the entry, the check of `done`, the
    wait-group Add and the `go` statement (model: `cRegister` is one step). -/
theorem flag_set_with_registration :
    ((regions.filter (fun r => r.writes.contains "readLoopRunning=true")).all fun r =>
      r.idx != 0 && r.reads.contains "readLoopRunning" && r.reads.contains "done" &&
      r.writes.contains "runningStepResultEntries" && r.spawns && r.wgAdds == 1) = true := by decide

/-- F6. Every wait-group Add happens inside a critical section that reads `done` (so no Add can
    overlap Close's Wait, which comes after the section that sets `done`). -/
theorem wg_add_locked_and_guarded :
    ((regions.filter (fun r => r.wgAdds != 0)).all fun r => r.idx != 0 && r.reads.contains "done") = true := by
  decide

/-- F7. `done` is written once, in Close's critical section. -/
theorem done_writer :
    ((regions.filter (fun r => r.writes.contains "done=true" || r.writes.contains "done=false" ||
        r.writes.contains "done")).map fun r => (r.fn, r.idx, r.writes)) = [("Close", 1, ["done=true"])] := by
  decide

/-- F8. Results are stored by `sendExecutionResult` only; entries are inserted by the registration
    and removed by their own caller (`getResultV2`, `removeResultChannels`). -/
theorem result_and_entry_writers :
    ((regions.filter (fun r => r.writes.contains "entry.result")).map (·.fn)) = ["sendExecutionResult"] ∧
    ((regions.filter (fun r => r.writes.contains "runningStepResultEntries")).map (·.fn)) =
      ["prepareResultChannels", "removeResultChannels", "getResultV2"] := by decide

/-- F9. Blocking operations inside critical sections of the client mutex: the forward of a signal to
    the caller's channel, the condition wait.  No read of the server-to-client stream (`lRead`) and
    NO WRITE to the client-to-server stream happens under the client mutex: `sendCBOR` serialises
    writers with a mutex of its own, so a write that waits for the peer cannot stop the read loop
    (model: `rsSend / cSend / wSend / clSend` touch only `c2s` and the writer's own position). -/
theorem blocking_in_sections :
    ((regions.filter (fun r => r.idx != 0 && !r.blocks.isEmpty)).map fun r => (r.fn, r.blocks)) =
      [("handleSignalMessage", ["chansend"]), ("getResultV2", ["condwait"])] := by
  decide

/-- F9b. The stream write is outside every critical section of the client mutex. -/
theorem no_stream_write_under_client_mutex :
    ((regions.filter (fun r => r.idx != 0 && r.blocks.contains "encode")).map (·.fn)) = [] ∧
    ((regions.filter (fun r => r.blocks.contains "encode")).map fun r => (r.fn, r.idx)) = [("sendCBOR", 0)] := by
  decide

/-- F10. Goroutines are started at three places: the signal writer (`Execute`, after its guarded Add),
    the read loop (inside the registration section), and the helper of `waitWithTimeout`. -/
theorem spawn_sites :
    ((regions.filter (·.spawns)).map fun r => (r.fn, r.idx)) =
      [("Execute", 0), ("waitWithTimeout", 0), ("prepareResultChannels", 1)] := by decide

/-- functions that take the client mutex themselves (they have a critical section of their own) -/
def lockingFns : List String := (regions.filter (fun r => r.idx != 0)).map (·.fn)

/-- code that runs with the client mutex held: every critical section, and the body of
    `sendExecutionResult` (F2: it is only called from critical sections) -/
def heldRegions : List Region :=
  regions.filter (fun r => r.idx != 0 || r.fn == "sendExecutionResult")

/-- F11. Nothing that runs with the client mutex held calls a function that locks it (`sync.Mutex`
    is not re-entrant: such a call would block the caller on itself - the read loop, for one, would
    never deliver or fan out anything again).  The model's steps are whole critical sections; a
    nested one has no counterpart in it. -/
theorem no_lock_inside_section :
    (heldRegions.all fun r => r.calls.all fun f => !lockingFns.contains f) = true := by decide

/-- F12. `Close` waits for the client's goroutines WITHOUT a bound: the only statement between the
    client-done message and `return nil` is `c.wg.Wait()` at the top level of the function, and it is
    the last one.  The bounded `waitWithTimeout` is used on the failed-write path only (inside
    `if err != nil`).  (Model: `clRet` needs `loops = [] ∧ writers = []`, and `C06_close_final`: after
    a normal return of Close no goroutine of the client is left - whatever a run in flight takes.) -/
theorem close_waits_unbounded :
    ((waitSites.filter (fun w => w.fn == "Close" && w.call == "wg.Wait")).map fun w => (w.depth, w.cond, w.tail)) =
      [(0, "", true)] ∧
    ((waitSites.filter (fun w => w.call == "waitWithTimeout")).all fun w =>
      w.fn == "Close" && w.cond == "err != nil" && w.depth != 0 && !w.tail) = true ∧
    ((waitSites.filter (fun w => w.fn == "Close" && w.tail)).map (·.call)) = ["wg.Wait"] := by decide

/-- F13. Writers and the legacy ATP v1 result reader use DIFFERENT mutexes, and neither takes the
    client mutex: `sendCBOR` locks only `writeMutex`, `getResultV1` only `v1ReadMutex`.  (With one
    mutex for both, a caller whose work-start write waits for a busy v1 plugin would keep the caller
    that has to read the plugin's pending result from reading it: neither Execute returns.  Model: the
    send steps and `cReadV1` are independent steps on different streams.) -/
theorem writers_and_v1_reader_use_different_mutexes :
    (locks.lookup "sendCBOR") = some ["writeMutex"] ∧
    (locks.lookup "getResultV1") = some ["v1ReadMutex"] := by decide

end Arca.AtpClientFacts

#print axioms Arca.AtpClientFacts.sections_are_model_steps
#print axioms Arca.AtpClientFacts.unlocked_access_only_in_sendExecutionResult
#print axioms Arca.AtpClientFacts.sendExecutionResult_called_locked
#print axioms Arca.AtpClientFacts.flag_writers
#print axioms Arca.AtpClientFacts.flag_clear_with_decision
#print axioms Arca.AtpClientFacts.flag_set_with_registration
#print axioms Arca.AtpClientFacts.wg_add_locked_and_guarded
#print axioms Arca.AtpClientFacts.done_writer
#print axioms Arca.AtpClientFacts.result_and_entry_writers
#print axioms Arca.AtpClientFacts.blocking_in_sections
#print axioms Arca.AtpClientFacts.no_stream_write_under_client_mutex
#print axioms Arca.AtpClientFacts.spawn_sites
#print axioms Arca.AtpClientFacts.no_lock_inside_section
#print axioms Arca.AtpClientFacts.close_waits_unbounded
#print axioms Arca.AtpClientFacts.writers_and_v1_reader_use_different_mutexes
