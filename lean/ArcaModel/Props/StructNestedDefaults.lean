import ArcaModel.Props.StructMap
import ArcaModel.Lemmas.StructRoundTrip
/-
  Defaults of nested sub-objects of a struct-mapped object (`applySubObjectDefaultValues` /
  `expandSubObjectDefaultValues`, model: `subDefS`, `applyDefaultsS`): the two facts the
  `nested-defaults` family of the `structmodel` stream tests, as theorems.

  (T1) absent stays absent: a block with no declared default, whose sub-object declares no default
       anywhere below, is not created by the expansion - for every field table - and the presence
       rules of the parent see it as not set (`C03_struct_absent_block_stays_absent`, `_rules`).
  (T2) each level consults its own field table: whether a property of a nested sub-object is left
       nil is decided by the field table of the struct that owns it; the outer struct type enters
       the expansion of a nested object only through the pointer-ness of the OUTER object's own
       properties (`C01_struct_nested_defaults_outer_irrelevant`), and a property the inner struct
       maps to a plain field gets its defaults whatever the outer struct does with a property of the
       same name (`C01_struct_nested_defaults_own_fields`).
-/
namespace Arca
namespace SM
open Out

/-! ### (T1) absent stays absent -/

/-- no property of a map-backed object type, at any depth, declares a default -/
def noDefTyB : Nat → Ty → Bool
  | 0, _ => false
  | n + 1, .obj _ props => props.all fun kp => kp.2.default.isNone && noDefTyB n kp.2.ty
  | _ + 1, _ => true

/-- no property below the schema declares a default, as far as `applySubObjectDefaultValues` looks:
    through objects (struct-mapped and map-backed), not through scopes, lists, maps, one-ofs -/
def noDefB : Nat → STy → Bool
  | 0, _ => false
  | n + 1, .leaf t => noDefTyB (n + 1) t
  | n + 1, .obj _ _ _ props => props.all fun kp => kp.2.rules.default.isNone && noDefB n kp.2.ty
  | _ + 1, _ => true

theorem defaultV_none {p : PropT} (h : p.default = none) : p.defaultV = none := by
  simp [PropT.defaultV, h]

theorem defaultsOf_nil : ∀ (ps : List (String × PropT)), (∀ kp, kp ∈ ps → kp.2.default = none) → defaultsOf ps = .ok []
  | [], _ => rfl
  | (k, p) :: rest, h => by
    simp only [defaultsOf, defaultV_none (h (k, p) (List.mem_cons_self ..))]
    exact defaultsOf_nil rest (fun kp hkp => h kp (List.mem_cons_of_mem _ hkp))

theorem subDefProps_nil {α} (rec : String → α → Option V → Out (Option V)) :
    ∀ (ps : List (String × α)), (∀ kp, kp ∈ ps → rec kp.1 kp.2 none = .ok none) → subDefProps rec ps [] = .ok []
  | [], _ => rfl
  | (k, p) :: rest, h => by
    have h1 := h (k, p) (List.mem_cons_self ..)
    simp only [] at h1
    simp only [subDefProps, lookupS, h1, Out.bind]
    exact subDefProps_nil rec rest (fun kp hkp => h kp (List.mem_cons_of_mem _ hkp))

theorem subDefTy_absent : ∀ (n : Nat) (t : Ty), noDefTyB n t = true → subDefTy n t none = .ok none
  | 0, _, h => by simp [noDefTyB] at h
  | n + 1, t, h => by
    cases t with
    | obj id props =>
      simp only [noDefTyB, List.all_eq_true, Bool.and_eq_true, Option.isNone_iff_eq_none] at h
      simp only [subDefTy, existingMap, defaultsOf_nil props (fun kp hkp => (h kp hkp).1), Out.bind, overlay]
      rw [subDefProps_nil _ props (fun kp hkp => subDefTy_absent n kp.2.ty (h kp hkp).2)]
      rfl
    | _ => rfl

/-- **Absent stays absent.** When no property below the schema `t` declares a default (`noDefB`),
    the expansion of an absent value of `t` adds nothing: the block stays absent
    (`if len(data) != 0 { rawData[propertyID] = data }`) - whatever struct types the objects below are
    mapped to, pointer fields or not. -/
theorem C03_struct_absent_block_stays_absent : ∀ (n : Nat) (t : STy), noDefB n t = true → subDefS n t none = .ok none
  | 0, _, h => by simp [noDefB] at h
  | n + 1, t, h => by
    cases t with
    | leaf t => simp only [noDefB] at h; simp only [subDefS]; exact subDefTy_absent (n + 1) t h
    | obj id st ptrT props =>
      simp only [noDefB, List.all_eq_true, Bool.and_eq_true, Option.isNone_iff_eq_none] at h
      simp only [subDefS]
      split
      · rfl
      · have hd : defaultsOf (rulesOf props) = .ok [] := by
          apply defaultsOf_nil
          intro kp hkp
          obtain ⟨kp0, hkp0, rfl⟩ := List.mem_map.mp hkp
          exact (h kp0 hkp0).1
        simp only [existingMap, hd, Out.bind, overlay]
        rw [subDefProps_nil _ props (fun kp hkp => by
          split
          · rfl
          · exact C03_struct_absent_block_stays_absent n kp.2.ty (h kp hkp).2)]
        rfl
    | list => rfl
    | map => rfl
    | scope => rfl
    | oneOf => rfl

/-- keys that were absent and have nothing to add stay absent through `convertData`'s default loop -/
theorem applyDefaultsS_stays_absent (st : StructTy) (fuel : Nat) (k : String) :
    ∀ (ps : List (String × SProp)) (m m0 : List (String × V)), applyDefaultsS st fuel ps m = .ok m0 →
      hasKey k m = false → (∀ p, (k, p) ∈ ps → dflStep (fieldSkips st k) fuel p = .ok none) → hasKey k m0 = false
  | [], m, m0, h, hk, _ => by simp only [applyDefaultsS, Out.ok.injEq] at h; subst h; exact hk
  | (k', p) :: rest, m, m0, h, hk, hd => by
    rw [applyDefaultsS_cons] at h
    have hd' : ∀ p, (k, p) ∈ rest → dflStep (fieldSkips st k) fuel p = .ok none :=
      fun p hp => hd p (List.mem_cons_of_mem _ hp)
    split at h
    · exact applyDefaultsS_stays_absent st fuel k rest m m0 h hk hd'
    · obtain ⟨o, ho, h⟩ := Out.bind_eq_ok h
      refine applyDefaultsS_stays_absent st fuel k rest _ m0 h ?_ hd'
      cases o with
      | none => exact hk
      | some v =>
        simp only []
        rw [hasKey_append, hk, Bool.false_or]
        by_cases hkk : k = k'
        · subst hkk
          rw [hd p (List.mem_cons_self ..)] at ho
          cases ho
        · simp [hasKey, lookupS, hkk]

/-- what `convertData` does for an absent block without defaults: nothing, for every field table -/
theorem dflStep_absent (skip : Bool) (fuel : Nat) (p : SProp) (hd : p.rules.default = none)
    (hno : noDefB fuel p.ty = true) : dflStep skip fuel p = .ok none := by
  simp only [dflStep, defaultV_none hd]
  split
  · rfl
  · exact C03_struct_absent_block_stays_absent fuel p.ty hno

/-- **... and the presence rules of the parent see the block as not set.** For a struct-mapped parent
    over ANY struct type `st`: if the input map lacks the property `k`, `k` has no declared default
    and nothing below its type declares one, then the converted map - the map whose key set the
    presence rules are checked on (`interdeps … fun k => hasKey k m` in `runObjS`) - lacks `k` too.
    Hence, by `C03_rules_iff`: Unserialize accepts only if `k` is not required and none of its
    `required_if` properties is present; a sibling with `required_if: [k]` is not required because
    of it, one with `required_if_not: [k]` gets no excuse from it, one with `conflicts: [k]` has no
    conflict with it. -/
theorem C03_struct_absent_block_stays_absent_rules (rec : SRec) (fuel : Nat) (st : StructTy)
    (props : List (String × SProp)) (mIn : List (String × V)) (m : List (String × SV)) (k : String)
    (hk : hasKey k mIn = false)
    (hp : ∀ p, (k, p) ∈ props → p.rules.default = none ∧ noDefB fuel p.ty = true)
    (h : sobjRaw rec fuel st props (.val (toStrAny mIn)) = .ok m) :
    hasKey k m = false ∧
    (interdeps (rulesOf props) (fun k' => hasKey k' m) = .ok () →
      (∀ p, (k, p) ∈ props → p.rules.required = false ∧ ∀ r, r ∈ p.rules.requiredIf → hasKey r m = false) ∧
      (∀ kp, kp ∈ props → hasKey kp.1 m = false → kp.2.rules.requiredIfNot ≠ [] →
        ∃ r, r ∈ kp.2.rules.requiredIfNot ∧ r ≠ k ∧ hasKey r m = true)) := by
  have hkm : hasKey k m = false := by
    unfold sobjRaw at h
    simp only [rawEntries_toStrAny, strKeys_toStrAny] at h
    split at h
    · simp [Out.cerr] at h
    · split at h
      · simp [Out.cerr] at h
      · obtain ⟨m0, hm0, h⟩ := Out.bind_eq_ok h
        rw [hasKey_congr_keys (forSVS_keys h)]
        exact applyDefaultsS_stays_absent st fuel k props mIn m0 hm0 hk
          (fun p hp' => dflStep_absent _ fuel p (hp p hp').1 (hp p hp').2)
  refine ⟨hkm, fun hi => ⟨?_, ?_⟩⟩
  · intro p hkp
    have := (C03_rules_iff _ _).mp hi (k, p.rules) (List.mem_map.mpr ⟨(k, p), hkp, rfl⟩)
    unfold RuleHolds at this
    simp only [hkm, Bool.false_eq_true, if_false] at this
    exact ⟨this.1, this.2.1⟩
  · intro kp hkp hno hne
    have := (C03_rules_iff _ _).mp hi (kp.1, kp.2.rules) (List.mem_map.mpr ⟨kp, hkp, rfl⟩)
    unfold RuleHolds at this
    simp only [hno, Bool.false_eq_true, if_false] at this
    obtain ⟨r, hr, hset⟩ := this.2.2 hne
    refine ⟨r, hr, ?_, hset⟩
    intro hrk
    subst hrk
    rw [hkm] at hset; cases hset

/-! ### (T2) each level consults its own field table -/

theorem lookupS_setKey_self {α} (k : String) (v : α) : ∀ (d : List (String × α)), lookupS k (setKey k v d) = some v
  | [] => by simp [setKey, lookupS]
  | (k', v') :: rest => by
    simp only [setKey]
    by_cases h : k = k'
    · subst h; simp [lookupS]
    · have : (k == k') = false := by simpa using h
      simp only [this, Bool.false_eq_true, if_false, lookupS]
      exact lookupS_setKey_self k v rest

theorem lookupS_setKey_ne {α} {k k' : String} (v : α) (h : k ≠ k') : ∀ (d : List (String × α)),
    lookupS k (setKey k' v d) = lookupS k d
  | [] => by
    have : (k == k') = false := by simpa using h
    simp [setKey, lookupS, this]
  | (k'', v'') :: rest => by
    simp only [setKey]
    by_cases h2 : k' = k''
    · subst h2
      have : (k == k') = false := by simpa using h
      simp [lookupS, this]
    · have : (k' == k'') = false := by simpa using h2
      simp only [this, Bool.false_eq_true, if_false, lookupS]
      split
      · rfl
      · exact lookupS_setKey_ne v h rest

/-- the expansion of the other properties leaves the entry of `k` alone -/
theorem subDefProps_lookup_other {α} (rec : String → α → Option V → Out (Option V)) (k : String) :
    ∀ (ps : List (String × α)) (d d' : List (String × V)), subDefProps rec ps d = .ok d' →
      k ∉ keysOf ps → lookupS k d' = lookupS k d
  | [], d, d', h, _ => by simp only [subDefProps, Out.ok.injEq] at h; subst h; rfl
  | (k', p) :: rest, d, d', h, hk => by
    simp only [subDefProps] at h
    obtain ⟨o, _, h⟩ := Out.bind_eq_ok h
    simp only [keysOf, List.map_cons, List.mem_cons, not_or] at hk
    rw [subDefProps_lookup_other rec k rest _ d' h hk.2]
    cases o with
    | none => rfl
    | some v => exact lookupS_setKey_ne v hk.1 d

/-- the entry of a property after the expansion is what its own recursive call returned -/
theorem subDefProps_lookup_mem {α} (rec : String → α → Option V → Out (Option V)) (k : String) (p : α) :
    ∀ (ps : List (String × α)) (d d' : List (String × V)), subDefProps rec ps d = .ok d' →
      (keysOf ps).Nodup → (k, p) ∈ ps →
      ∃ o, rec k p (lookupS k d) = .ok o ∧ lookupS k d' = (match o with | some v => some v | none => lookupS k d)
  | [], _, _, _, _, hm => by cases hm
  | (k', p') :: rest, d, d', h, hnd, hm => by
    simp only [subDefProps] at h
    obtain ⟨o, ho, h2⟩ := Out.bind_eq_ok h
    simp only [keysOf, List.map_cons, List.nodup_cons] at hnd
    rcases List.mem_cons.mp hm with e | e
    · have e1 : k = k' := congrArg Prod.fst e
      have e2 : p = p' := congrArg Prod.snd e
      subst e1 e2
      refine ⟨o, ho, ?_⟩
      rw [subDefProps_lookup_other rec k rest _ d' h2 hnd.1]
      cases o with
      | none => rfl
      | some v => exact lookupS_setKey_self k v d
    · have hne : k ≠ k' := by
        intro e'; subst e'
        exact hnd.1 (List.mem_map.mpr ⟨(k, p), e, rfl⟩)
      cases o with
      | none => exact subDefProps_lookup_mem rec k p rest _ d' h2 hnd.2 e
      | some v =>
        obtain ⟨o2, ho2, hl⟩ := subDefProps_lookup_mem rec k p rest _ d' h2 hnd.2 e
        simp only [lookupS_setKey_ne v hne d] at ho2 hl
        exact ⟨o2, ho2, hl⟩

theorem subDefProps_congr {α} {rec rec' : String → α → Option V → Out (Option V)} :
    ∀ (ps : List (String × α)) (d : List (String × V)), (∀ kp, kp ∈ ps → ∀ e, rec kp.1 kp.2 e = rec' kp.1 kp.2 e) →
      subDefProps rec ps d = subDefProps rec' ps d
  | [], _, _ => rfl
  | (k, p) :: rest, d, h => by
    simp only [subDefProps, h (k, p) (List.mem_cons_self ..)]
    congr 1
    funext o
    exact subDefProps_congr rest _ (fun kp hkp => h kp (List.mem_cons_of_mem _ hkp))

/-- **The outer struct type enters the expansion only through the pointer-ness of the OUTER object's
    own properties.** Two struct types that agree on which of the object's properties sit on pointer /
    interface fields give the same expansion - whatever else they contain, and whatever they do with
    the names of properties of the objects BELOW: those are looked up in the field tables of the
    structs that own them (the recursive call `subDefS n p.ty e` does not mention `st`). -/
theorem C01_struct_nested_defaults_outer_irrelevant (n : Nat) (id id' : String) (st st' : StructTy) (ptrT : Bool)
    (props : List (String × SProp)) (ex : Option V)
    (h : ∀ kp, kp ∈ props → fieldSkips st kp.1 = fieldSkips st' kp.1) :
    subDefS n (.obj id st ptrT props) ex = subDefS n (.obj id' st' ptrT props) ex := by
  cases n with
  | zero => rfl
  | succ n =>
    simp only [subDefS]
    split
    · rfl
    · split
      · rfl
      · congr 1
        funext defs
        congr 1
        exact subDefProps_congr props _ (fun kp hkp e => by simp only [h kp hkp])

/-- **A property the inner struct maps to a plain field gets its defaults, whatever the outer struct
    does with a property of the same name.** Let the inner object (over `stI`) map its property `p`
    to a field that is neither a pointer nor an interface (`fieldSkips stI p = false`), and let `p`'s
    sub-object expand to `dv` (given what the inner object's own defaults `defs` say about `p`).
    Then for EVERY outer struct type `stO` - one that maps a property named `p` to a pointer field
    included - and every outer property `box` of the inner object's type on a plain field of `stO`,
    without declared default: what `convertData` stores for an absent `box` (`dflStep`, the step of
    `applyDefaultsS`, see `applyDefaultsS_cons`) is a map that contains `p` with `dv`. -/
theorem C01_struct_nested_defaults_own_fields (n : Nat) (idI : String) (stI : StructTy)
    (propsI : List (String × SProp)) (p : String) (pp : SProp) (defs : List (String × V)) (dv : V)
    (hnd : (keysOf propsI).Nodup) (hp : (p, pp) ∈ propsI) (hplain : fieldSkips stI p = false)
    (hdefs : defaultsOf (rulesOf propsI) = .ok defs)
    (hsub : subDefS n pp.ty (lookupS p (overlay [] defs)) = .ok (some dv))
    (stO : StructTy) (box : String) (pbox : SProp) (hty : pbox.ty = .obj idI stI false propsI)
    (hnodef : pbox.rules.default = none) (hplainO : fieldSkips stO box = false)
    (r : Option V) (hr : dflStep (fieldSkips stO box) (n + 1) pbox = .ok r) :
    ∃ dI, r = some (toStrAny dI) ∧ lookupS p dI = some dv := by
  simp only [dflStep, defaultV_none hnodef, hplainO, Bool.false_eq_true, if_false, hty, subDefS, existingMap,
    hdefs, Out.bind] at hr
  obtain ⟨dI, hdI, hr⟩ := Out.bind_eq_ok hr
  obtain ⟨o, ho, hl⟩ := subDefProps_lookup_mem _ p pp propsI _ dI hdI hnd hp
  simp only [hplain, Bool.false_eq_true, if_false, hsub, Out.ok.injEq] at ho
  subst ho
  simp only [] at hl
  have hne : dI.isEmpty = false := by
    cases dI with
    | nil => simp [lookupS] at hl
    | cons => rfl
  simp only [hne, Bool.false_eq_true, if_false, Out.ok.injEq] at hr
  exact ⟨dI, hr.symm, hl⟩

/-! ### instances (the shapes of the `nested-defaults` family of the `structmodel` stream) -/

namespace NestedExample

/-- `type Lim struct { Max int64 `json:"max"`; Min *int64 `json:"min"`; Unit string `json:"unit"` }` -/
def stLim : StructTy := ⟨"Lim", [
  ⟨"Max", "max", true, .int .int64, .val (.int .int64 0)⟩,
  ⟨"Min", "min", true, .ptr (.int .int64), .nilPtr⟩,
  ⟨"Unit", "unit", true, .str, .val (.str "")⟩]⟩
def zeroLim : SV := .struct "Lim" [("Max", .val (.int .int64 0)), ("Min", .nilPtr), ("Unit", .val (.str ""))]
/-- `type BoxV struct { Limits Lim `json:"limits"`; Label *string `json:"label"` }`: `limits` on a plain field -/
def stBoxV : StructTy := ⟨"BoxV", [
  ⟨"Limits", "limits", true, .struct "Lim", zeroLim⟩, ⟨"Label", "label", true, .ptr .str, .nilPtr⟩]⟩
/-- `type BoxP struct { Limits *Lim `json:"limits"`; Label *string `json:"label"` }`: behind a pointer -/
def stBoxP : StructTy := ⟨"BoxP", [
  ⟨"Limits", "limits", true, .ptr (.struct "Lim"), .nilPtr⟩, ⟨"Label", "label", true, .ptr .str, .nilPtr⟩]⟩
/-- `type OuterP struct { Limits *Lim `json:"limits"`; Box BoxV `json:"box"`; Name *string `json:"name"` }` -/
def stOuterP : StructTy := ⟨"OuterP", [
  ⟨"Limits", "limits", true, .ptr (.struct "Lim"), .nilPtr⟩,
  ⟨"Box", "box", true, .struct "BoxV", .struct "BoxV" [("Limits", zeroLim), ("Label", .nilPtr)]⟩,
  ⟨"Name", "name", true, .ptr .str, .nilPtr⟩]⟩
/-- `type OuterV struct { Limits Lim `json:"limits"`; Box BoxP `json:"box"`; Name *string `json:"name"` }` -/
def stOuterV : StructTy := ⟨"OuterV", [
  ⟨"Limits", "limits", true, .struct "Lim", zeroLim⟩,
  ⟨"Box", "box", true, .struct "BoxP", .struct "BoxP" [("Limits", .nilPtr), ("Label", .nilPtr)]⟩,
  ⟨"Name", "name", true, .ptr .str, .nilPtr⟩]⟩

def opt (t : STy) : SProp := .mk t false [] [] [] none false false
def strP : SProp := opt (.leaf (.str none none none))
/-- `max`: an integer of at least 1 with the default 3 (the zero value is invalid) -/
def limDefaults : STy := .obj "Lim" stLim false [
  ("max", .mk (.leaf (.int (some 1) none none)) false [] [] [] (some ⟨some (.float .f64 0x4008000000000000), none⟩) false false)]
/-- `max` required, no default anywhere -/
def limRequired : STy := .obj "Lim" stLim false [
  ("max", .mk (.leaf (.int none none none)) true [] [] [] none false false), ("unit", strP)]
def limOptional : STy := .obj "Lim" stLim false [("max", opt (.leaf (.int none none none)))]
def three : V := .float .f64 0x4008000000000000

/-- class A: `limits` behind a pointer above, on a plain field below; nothing declared in between -/
def outerP : STy := .obj "OuterP" stOuterP false [
  ("limits", opt limDefaults), ("box", opt (.obj "BoxV" stBoxV false [("limits", opt limDefaults), ("label", strP)])), ("name", strP)]
/-- the mirror image -/
def outerV : STy := .obj "OuterV" stOuterV false [
  ("limits", opt limDefaults), ("box", opt (.obj "BoxP" stBoxP false [("limits", opt limDefaults), ("label", strP)])), ("name", strP)]

example : wfSB 6 outerP = true ∧ wfSB 6 outerV = true := by decide +kernel
/-- the two struct types disagree about `limits`, and each level uses its own -/
example : fieldSkips stOuterP "limits" = true ∧ fieldSkips stBoxV "limits" = false ∧
    fieldSkips stOuterV "limits" = false ∧ fieldSkips stBoxP "limits" = true := by decide +kernel

/-- the hypotheses of `C01_struct_nested_defaults_own_fields` hold of the inner object `BoxV` ... -/
example : defaultsOf (rulesOf [("limits", opt limDefaults), ("label", strP)]) = .ok [] ∧
    subDefS 3 limDefaults (lookupS "limits" (overlay [] [])) = .ok (some (toStrAny [("max", three)])) := by
  constructor <;> rfl
/-- ... so an absent `box` is stored with the inner defaults although `OuterP` itself keeps `limits`
    behind a pointer: the whole default loop of `OuterP` on the empty input adds `box` and only `box` -/
example : applyDefaultsS stOuterP 5 [("limits", opt limDefaults),
      ("box", opt (.obj "BoxV" stBoxV false [("limits", opt limDefaults), ("label", strP)])), ("name", strP)] [] =
    .ok [("box", toStrAny [("limits", toStrAny [("max", three)])])] := by rfl
/-- the mirror image: the top-level `limits` is filled in, `box` (whose only block sits behind a
    pointer and which declares nothing else) stays absent -/
example : applyDefaultsS stOuterV 5 [("limits", opt limDefaults),
      ("box", opt (.obj "BoxP" stBoxP false [("limits", opt limDefaults), ("label", strP)])), ("name", strP)] [] =
    .ok [("limits", toStrAny [("max", three)])] := by rfl
/-- end to end: Unserialize of `{}` -/
example (x : Ext) : srun x 8 .U outerP (.val (toStrAny [])) = .ok (.struct "OuterP" [("Limits", .nilPtr),
    ("Box", .struct "BoxV" [("Limits", .struct "Lim" [("Max", .val (.int .int64 3)), ("Min", .nilPtr), ("Unit", .val (.str ""))]),
      ("Label", .nilPtr)]), ("Name", .nilPtr)]) := by rfl
example (x : Ext) : srun x 8 .U outerV (.val (toStrAny [])) = .ok (.struct "OuterV" [
    ("Limits", .struct "Lim" [("Max", .val (.int .int64 3)), ("Min", .nilPtr), ("Unit", .val (.str ""))]),
    ("Box", .struct "BoxP" [("Limits", .nilPtr), ("Label", .nilPtr)]), ("Name", .nilPtr)]) := by rfl

/-- class B: the hypotheses of `C03_struct_absent_block_stays_absent` hold of a block with a required
    member and of a block two levels deep; they fail as soon as a default is declared below -/
example : noDefB 4 limRequired = true ∧
    noDefB 5 (.obj "BoxV" stBoxV false [("limits", opt limRequired), ("label", strP)]) = true ∧
    noDefB 4 limDefaults = false := by decide +kernel
/-- an optional block with a required member, left out: accepted, the struct holds the zero value -/
def optBlock : STy := .obj "OuterV" stOuterV false [("limits", opt limRequired), ("name", strP)]
example (x : Ext) : srun x 8 .U optBlock (.val (toStrAny [])) = .ok (.struct "OuterV" [("Limits", zeroLim),
    ("Box", .struct "BoxP" [("Limits", .nilPtr), ("Label", .nilPtr)]), ("Name", .nilPtr)]) := by rfl
example (x : Ext) : srun x 8 .U optBlock (.val (toStrAny [("limits", toStrAny [])])) = .err ⟨true, ["limits", "max"]⟩ := by rfl
/-- a required block with only optional members, left out: refused at the block; `{}` for it: accepted -/
def reqBlock : STy := .obj "OuterV" stOuterV false [
  ("limits", .mk limOptional true [] [] [] none false false), ("name", strP)]
example (x : Ext) : srun x 8 .U reqBlock (.val (toStrAny [])) = .err ⟨true, ["limits"]⟩ := by rfl
example (x : Ext) : (srun x 8 .U reqBlock (.val (toStrAny [("limits", toStrAny [])]))).isOk = true := by rfl
/-- sibling rules see the absent block as absent: `name` with `required_if: [limits]` is not required,
    `name` with `required_if_not: [limits]` is -/
example (x : Ext) : (srun x 8 .U (.obj "OuterV" stOuterV false [("limits", opt limOptional),
    ("name", .mk (.leaf (.str none none none)) false ["limits"] [] [] none false false)]) (.val (toStrAny []))).isOk = true := by rfl
example (x : Ext) : srun x 8 .U (.obj "OuterV" stOuterV false [("limits", opt limOptional),
    ("name", .mk (.leaf (.str none none none)) false [] ["limits"] [] none false false)]) (.val (toStrAny [])) =
    .err ⟨true, ["name"]⟩ := by rfl

end NestedExample

end SM
end Arca
