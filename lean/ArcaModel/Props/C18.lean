import ArcaModel.Model.Func
/-
  Property C18: "Functions: handlers accepted iff signatures match; calls report faithfully."

  All theorems quantify over every handler value, every signature over the type universe `GoType`
  (parameter and result lists of any length), every declaration and every argument list - not over a
  sample. They are statements about the model `Arca.Func` of `/repo/schema/function.go`; the
  correspondence of that model with the Go code is checked by the `funcs` harness sub-command.
-/
namespace Arca.Func

/-! ## Helper lemmas -/

theorem firstMismatch_none (i : Nat) (xs ys : List GoType) (h : xs.length = ys.length) :
    firstMismatch i xs ys = none ↔ xs = ys := by
  induction xs generalizing ys i with
  | nil =>
    cases ys with
    | nil => simp [firstMismatch]
    | cons y ys => simp at h
  | cons x xs ih =>
    cases ys with
    | nil => simp at h
    | cons y ys =>
      simp only [List.length_cons, Nat.add_right_cancel_iff] at h
      by_cases hxy : x = y
      · subst hxy
        simp [firstMismatch, ih (i + 1) ys h]
      · simp [firstMismatch, hxy]

/-- `validateInputTypeCompatibility` succeeds exactly for non-nil functions whose parameter types are
    the reflected types of the declared inputs -/
theorem checkInputs_ok (inputs : List STy) (h : HandlerV) (s : Sig) :
    checkInputs inputs h = .ok s ↔ h = .func s ∧ s.params = inputs.map reflected := by
  cases h with
  | untypedNil => simp [checkInputs]
  | nonFunc t => simp [checkInputs]
  | nilFunc s' => simp [checkInputs]
  | func s' =>
    simp only [checkInputs, HandlerV.func.injEq]
    by_cases hl : inputs.length = s'.params.length
    · have hfm := firstMismatch_none 0 (inputs.map reflected) s'.params (by simpa using hl)
      cases hm : firstMismatch 0 (inputs.map reflected) s'.params with
      | none =>
        have heq := hfm.mp hm
        simp only [hl, bne_self_eq_false, Bool.false_eq_true, ↓reduceIte, Except.ok.injEq]
        constructor
        · intro h; subst h; exact ⟨rfl, heq.symm⟩
        · intro h; exact h.1
      | some i =>
        have hne : ¬ (inputs.map reflected = s'.params) := by
          intro heq
          rw [hfm.mpr heq] at hm
          cases hm
        simp only [hl, bne_self_eq_false, Bool.false_eq_true, ↓reduceIte, reduceCtorEq, false_iff,
          not_and]
        intro h1 h2
        subst h1
        exact hne h2.symm
    · have hl' : (inputs.length != s'.params.length) = true := by simpa using hl
      simp only [hl', ↓reduceIte, reduceCtorEq, false_iff, not_and]
      intro h1 h2
      subst h1
      apply hl
      rw [h2]
      simp

/-- the result list the declaration asks for: `[out?] ++ [error?]`, `error` the predeclared interface -/
def expectedResults (output : Option STy) (outputsError : Bool) : List GoType :=
  (output.map reflected).toList ++ (if outputsError then [GoType.error] else [])

/-- `validateTypedReturnFunc` succeeds exactly when the result list is the expected one -/
theorem checkStaticReturn_ok (s : Sig) (oe : Bool) (out : Option STy) :
    checkStaticReturn s oe out = .ok () ↔ s.results = expectedResults out oe := by
  unfold checkStaticReturn checkStaticReturnWith expectedReturnCount expectedResults isErrorType
  rcases hr : s.results with _ | ⟨a, _ | ⟨b, _ | ⟨c, l⟩⟩⟩ <;> cases out <;> cases oe <;>
    simp <;> try omega
  all_goals first
    | (intro h; exact h.symm)
    | (constructor <;> (intro h; exact h.symm))
    | (split <;> (try split) <;> simp_all)
    | skip

/-! ## C18: acceptance -/

/-- The static constructor accepts a handler iff it is a (non-nil) function whose parameter types
    equal the reflected types of the declared inputs pairwise and whose result list equals
    `[out?] ++ [error?]`, where `out` is the reflected type of the declared output schema (absent
    if none is declared) and `error` is the predeclared interface (present iff `outputsError`). -/
theorem C18_accept_iff (d : Decl) (h : HandlerV) :
    acceptsStatic d h = true ↔
      ∃ s : Sig, h = .func s ∧ s.params = d.inputs.map reflected ∧
        s.results = expectedResults d.output d.outputsError := by
  unfold acceptsStatic newStatic
  cases hci : checkInputs d.inputs h with
  | error e =>
    simp only [Bool.false_eq_true, false_iff, not_exists, not_and]
    intro s h1 h2
    have := (checkInputs_ok d.inputs h s).mpr ⟨h1, h2⟩
    rw [hci] at this
    cases this
  | ok s =>
    have ⟨h1, h2⟩ := (checkInputs_ok d.inputs h s).mp hci
    simp only
    cases hcr : checkStaticReturn s d.outputsError d.output with
    | error e =>
      simp only [Bool.false_eq_true, false_iff, not_exists, not_and]
      intro s' h1' _ h3
      rw [h1] at h1'
      cases h1'
      have := (checkStaticReturn_ok s d.outputsError d.output).mpr h3
      rw [hcr] at this
      cases this
    | ok u =>
      simp only [true_iff]
      exact ⟨s, h1, h2, (checkStaticReturn_ok s d.outputsError d.output).mp hcr⟩

/-- what an accepted static function looks like -/
theorem newStatic_ok (d : Decl) (h : HandlerV) (c : Callable) (hacc : newStatic d h = .ok c) :
    h = .func c.sig ∧ c.sig.params = d.inputs.map reflected ∧
      c.sig.results = expectedResults d.output d.outputsError ∧
      c.hasStaticOutput = d.output.isSome ∧ c.dynamic = false ∧ c.outputsError = d.outputsError := by
  unfold newStatic at hacc
  cases hci : checkInputs d.inputs h with
  | error e => rw [hci] at hacc; cases hacc
  | ok s =>
    rw [hci] at hacc
    simp only at hacc
    have ⟨h1, h2⟩ := (checkInputs_ok d.inputs h s).mp hci
    cases hcr : checkStaticReturn s d.outputsError d.output with
    | error e => rw [hcr] at hacc; cases hacc
    | ok u =>
      rw [hcr] at hacc
      have h3 := (checkStaticReturn_ok s d.outputsError d.output).mp hcr
      cases hacc
      exact ⟨h1, h2, h3, rfl, rfl, rfl⟩

theorem checkDynamicReturn_ok (s : Sig) :
    checkDynamicReturn s = .ok () ↔
      ∃ t, s.results = [t, GoType.error] ∧ t.isInterface = true := by
  unfold checkDynamicReturn
  rcases hr : s.results with _ | ⟨a, _ | ⟨b, _ | ⟨c, l⟩⟩⟩ <;> simp
  by_cases hb : b = GoType.error
  · subst hb
    cases hi : a.isInterface <;> simp [hi]
  · simp [hb]

/-- The dynamic constructor accepts iff a type handler is given, the handler is a (non-nil) function
    whose parameter types equal the reflected types of the declared inputs pairwise, and it has
    exactly two results: first ANY type of interface kind (not necessarily `any`), second the
    predeclared `error` interface. -/
theorem C18_dynamic_iff (inputs : List STy) (h : HandlerV) (typeHandlerNil : Bool) :
    acceptsDynamic inputs h typeHandlerNil = true ↔
      typeHandlerNil = false ∧
      ∃ s : Sig, h = .func s ∧ s.params = inputs.map reflected ∧
        ∃ t, s.results = [t, GoType.error] ∧ t.isInterface = true := by
  unfold acceptsDynamic newDynamic
  cases hci : checkInputs inputs h with
  | error e =>
    simp only [Bool.false_eq_true, false_iff, not_and, not_exists]
    intro _ s h1 h2
    have := (checkInputs_ok inputs h s).mpr ⟨h1, h2⟩
    rw [hci] at this
    cases this
  | ok s =>
    have ⟨h1, h2⟩ := (checkInputs_ok inputs h s).mp hci
    cases typeHandlerNil with
    | true => simp
    | false =>
      simp only [Bool.false_eq_true, ↓reduceIte, true_and]
      cases hcr : checkDynamicReturn s with
      | error e =>
        simp only [Bool.false_eq_true, false_iff, not_and, not_exists]
        intro s' h1' _ t h3 h4
        rw [h1] at h1'
        cases h1'
        have := (checkDynamicReturn_ok s).mpr ⟨t, h3, h4⟩
        rw [hcr] at this
        cases this
      | ok u =>
        simp only [true_iff]
        exact ⟨s, h1, h2, (checkDynamicReturn_ok s).mp hcr⟩

theorem newDynamic_ok (inputs : List STy) (h : HandlerV) (thn : Bool) (c : Callable)
    (hacc : newDynamic inputs h thn = .ok c) :
    h = .func c.sig ∧ c.sig.params = inputs.map reflected ∧
      (∃ t, c.sig.results = [t, GoType.error] ∧ t.isInterface = true) ∧
      c.hasStaticOutput = false ∧ c.dynamic = true ∧ c.outputsError = true := by
  unfold newDynamic at hacc
  cases hci : checkInputs inputs h with
  | error e => rw [hci] at hacc; cases hacc
  | ok s =>
    rw [hci] at hacc
    have ⟨h1, h2⟩ := (checkInputs_ok inputs h s).mp hci
    cases thn with
    | true => simp at hacc
    | false =>
      simp only [Bool.false_eq_true, ↓reduceIte] at hacc
      cases hcr : checkDynamicReturn s with
      | error e => rw [hcr] at hacc; simp at hacc
      | ok u =>
        rw [hcr] at hacc
        have h3 := (checkDynamicReturn_ok s).mp hcr
        simp only [Except.ok.injEq] at hacc
        subst hacc
        exact ⟨h1, h2, h3, rfl, rfl, rfl⟩

/-! ## C18: calls -/

/-- the argument `a` is a value of the parameter type `p`: untyped nil for interface types,
    otherwise a value whose dynamic type is assignable to `p` -/
def ArgOk (p : GoType) (a : AnyV) : Prop :=
  match a with
  | none => p.isInterface = true
  | some dv => assignable dv.ty p = true

/-- the argument loop lets exactly the well-typed argument lists through, unchanged -/
theorem convertArgs_some (ps : List GoType) (as as' : List AnyV) :
    convertArgs ps as = some as' ↔ Forall₂ ArgOk ps as ∧ as' = as := by
  induction ps generalizing as as' with
  | nil =>
    cases as with
    | nil =>
      simp only [convertArgs, Option.some.injEq]
      constructor
      · intro h; exact ⟨Forall₂.nil, h.symm⟩
      · intro h; exact h.2.symm
    | cons a as =>
      simp only [convertArgs, reduceCtorEq, false_iff, not_and]
      intro h; cases h
  | cons p ps ih =>
    cases as with
    | nil =>
      simp only [convertArgs, reduceCtorEq, false_iff, not_and]
      intro h; cases h
    | cons a as =>
      cases a with
      | none =>
        simp only [convertArgs]
        by_cases hp : p.isInterface = true
        · simp only [hp, ↓reduceIte, Option.map_eq_some_iff]
          constructor
          · rintro ⟨r, hr, rfl⟩
            have ⟨h1, h2⟩ := (ih as r).mp hr
            subst h2
            exact ⟨Forall₂.cons hp h1, rfl⟩
          · rintro ⟨hf, rfl⟩
            cases hf with
            | cons _ hrest => exact ⟨as, (ih as as).mpr ⟨hrest, rfl⟩, rfl⟩
        · simp only [hp, Bool.false_eq_true, ↓reduceIte, reduceCtorEq, false_iff, not_and]
          intro hf
          cases hf with
          | cons h1 _ => exact absurd h1 hp
      | some dv =>
        simp only [convertArgs]
        by_cases hp : assignable dv.ty p = true
        · simp only [hp, ↓reduceIte, Option.map_eq_some_iff]
          constructor
          · rintro ⟨r, hr, rfl⟩
            have ⟨h1, h2⟩ := (ih as r).mp hr
            subst h2
            exact ⟨Forall₂.cons hp h1, rfl⟩
          · rintro ⟨hf, rfl⟩
            cases hf with
            | cons _ hrest => exact ⟨as, (ih as as).mpr ⟨hrest, rfl⟩, rfl⟩
        · simp only [hp, Bool.false_eq_true, ↓reduceIte, reduceCtorEq, false_iff, not_and]
          intro hf
          cases hf with
          | cons h1 _ => exact absurd h1 hp

theorem forall₂_length {α β} {R : α → β → Prop} {xs : List α} {ys : List β}
    (h : Forall₂ R xs ys) : xs.length = ys.length := by
  induction h with
  | nil => rfl
  | cons _ _ ih => simp [ih]

/-- the result list of a handler with an optional value result and an optional error result -/
def results (v : Option RVal) (e : Option AnyV) : List RVal :=
  v.toList ++ (e.map (RVal.iface .error)).toList

/-- what `Call` must report for such a result list: a non-nil error as function-reported, otherwise
    exactly the value (nil when there is no value result) -/
def faithful (v : Option RVal) (e : Option AnyV) : CallOut :=
  match e with
  | some (some dv) => .errFn dv
  | _ => .value (v.bind RVal.interface)

theorem unpack_faithful (c : Callable) (v : Option RVal) (e : Option AnyV)
    (hv : v.isSome = (c.hasStaticOutput || c.dynamic))
    (herr : ∀ dv, e = some (some dv) → implements dv.ty .error = true) :
    unpack c (results v e) = faithful v e := by
  unfold unpack results faithful
  cases hx : (c.hasStaticOutput || c.dynamic) <;> rw [hx] at hv
  · cases v with
    | some r => simp at hv
    | none =>
      cases e with
      | none => simp
      | some e =>
        cases e with
        | none => simp [RVal.isNil?]
        | some dv =>
          have := herr dv rfl
          simp [RVal.isNil?, RVal.interface, isError, this]
  · cases v with
    | none => simp at hv
    | some r =>
      cases e with
      | none => simp
      | some e =>
        cases e with
        | none => simp [RVal.isNil?]
        | some dv =>
          have := herr dv rfl
          simp [RVal.isNil?, RVal.interface, isError, this]

/-- `Call` on any callable: wrong count or an ill-typed argument is refused as a call error -/
theorem call_shape (c : Callable) (beh : Beh) (args : List AnyV)
    (h : ¬ Forall₂ ArgOk c.sig.params args) : call c beh args = .errCall := by
  unfold call
  by_cases hl : args.length = c.sig.params.length
  · cases hc : convertArgs c.sig.params args with
    | none => simp [hl]
    | some as => exact absurd ((convertArgs_some _ _ _).mp hc).1 h
  · have : (args.length != c.sig.params.length) = true := by simpa using hl
    simp [this]

theorem call_welltyped (c : Callable) (beh : Beh) (args : List AnyV)
    (h : Forall₂ ArgOk c.sig.params args) :
    call c beh args = match beh args with
      | none => .panic
      | some res => unpack c res := by
  unfold call
  have hl := forall₂_length h
  have hc := (convertArgs_some c.sig.params args args).mpr ⟨h, rfl⟩
  have hne : (args.length != c.sig.params.length) = false := by simp [hl]
  rw [hne, hc]
  rfl

/-- no result list that is well-typed for the signature of an accepted function makes `unpack` panic -/
theorem unpack_no_panic (c : Callable) (res : List RVal) (out : Option GoType) (oe : Bool)
    (hres : c.sig.results = out.toList ++ (if oe then [GoType.error] else []))
    (hout : out.isSome = (c.hasStaticOutput || c.dynamic))
    (hwt : Forall₂ RVal.WellTyped c.sig.results res) :
    unpack c res ≠ .panic := by
  rw [hres] at hwt
  unfold unpack
  cases hx : (c.hasStaticOutput || c.dynamic) <;> rw [hx] at hout
  · cases out with
    | some t => simp at hout
    | none =>
      cases oe with
      | false =>
        cases hwt
        simp
      | true =>
        cases hwt with
        | cons h1 h2 =>
          cases h2
          rename_i r
          cases r with
          | conc s n d => simp [RVal.WellTyped, GoType.isInterface] at h1
          | iface s v =>
            cases v with
            | none => simp [RVal.isNil?]
            | some dv =>
              simp only [Bool.false_eq_true, ↓reduceIte, List.length_cons, List.length_nil,
                Nat.zero_add, BEq.rfl, List.getElem?_cons_zero, RVal.isNil?, Option.isNone_some,
                RVal.interface]
              cases isError dv <;> simp
  · cases out with
    | none => simp at hout
    | some t =>
      cases oe with
      | false =>
        cases hwt with
        | cons h1 h2 =>
          cases h2
          simp
      | true =>
        cases hwt with
        | cons h1 h2 =>
          cases h2 with
          | cons h3 h4 =>
            cases h4
            rename_i r0 r
            cases r with
            | conc s n d => simp [RVal.WellTyped, GoType.isInterface] at h3
            | iface s v =>
              cases v with
              | none => simp [RVal.isNil?]
              | some dv =>
                simp only [↓reduceIte, List.length_cons, List.length_nil, Nat.zero_add,
                  Nat.reduceAdd, Nat.reduceBEq, Bool.false_eq_true, BEq.rfl,
                  List.getElem?_cons_succ, List.getElem?_cons_zero, RVal.isNil?,
                  Option.isNone_some, RVal.interface]
                cases isError dv <;> simp

/-- **C18, calls of an accepted static function.**
    Let `NewCallableFunction` accept `h` for the declaration `d`, giving `c`. Then for every handler
    behaviour `beh` and every argument list `args`:
    1. a wrong number of arguments is an error that is NOT function-reported (never a panic, the
       handler is not consulted);
    2. so is an argument list of the right length with an argument that is not a value of the
       declared type;
    3. if the arguments are values of the declared (reflected) types and the handler returns the
       value `v` (present iff an output is declared) and the error `e` (present iff
       `outputsError`; its dynamic type implements `error`, as Go's typing guarantees), then `Call`
       returns exactly `v` with a nil error when `e` is nil or absent, and reports `e` itself as a
       function-reported error when it is not nil;
    4. if the handler never panics and returns result lists that are well-typed for its signature,
       `Call` never panics, whatever the arguments. -/
theorem C18_call_faithful (d : Decl) (h : HandlerV) (c : Callable)
    (hacc : newStatic d h = .ok c) (beh : Beh) (args : List AnyV) :
    (args.length ≠ d.inputs.length → call c beh args = .errCall) ∧
    (¬ Forall₂ ArgOk (d.inputs.map reflected) args → call c beh args = .errCall) ∧
    (∀ (v : Option RVal) (e : Option AnyV),
        Forall₂ ArgOk (d.inputs.map reflected) args →
        v.isSome = d.output.isSome → e.isSome = d.outputsError →
        (∀ dv, e = some (some dv) → implements dv.ty .error = true) →
        beh args = some (results v e) →
        call c beh args = faithful v e) ∧
    ((∀ as, beh as ≠ none) →
      (∀ as res, beh as = some res → Forall₂ RVal.WellTyped c.sig.results res) →
      call c beh args ≠ .panic) := by
  have ⟨_, hp, hr, hso, hdyn, _⟩ := newStatic_ok d h c hacc
  refine ⟨?_, ?_, ?_, ?_⟩
  · intro hl
    apply call_shape
    intro hf
    apply hl
    have := forall₂_length hf
    rw [hp] at this
    simpa using this.symm
  · intro hf
    apply call_shape
    rw [hp]
    exact hf
  · intro v e hargs hv _ herr hbeh
    rw [← hp] at hargs
    rw [call_welltyped c beh args hargs, hbeh]
    apply unpack_faithful c v e _ herr
    rw [hso, hdyn, hv]
    simp
  · intro hnp hwt
    by_cases hf : Forall₂ ArgOk c.sig.params args
    · rw [call_welltyped c beh args hf]
      cases hb : beh args with
      | none => exact absurd hb (hnp args)
      | some res =>
        simp only
        apply unpack_no_panic c res (d.output.map reflected) d.outputsError
        · rw [hr]; rfl
        · rw [hso, hdyn]; simp
        · exact hwt args res hb
    · rw [call_shape c beh args hf]
      intro hh
      cases hh

/-- **C18, calls of an accepted dynamic function**: the same four statements; a dynamic handler
    always has a value result (of interface type) and an error result. -/
theorem C18_call_faithful_dynamic (inputs : List STy) (h : HandlerV) (c : Callable)
    (hacc : newDynamic inputs h false = .ok c) (beh : Beh) (args : List AnyV) :
    (args.length ≠ inputs.length → call c beh args = .errCall) ∧
    (¬ Forall₂ ArgOk (inputs.map reflected) args → call c beh args = .errCall) ∧
    (∀ (v : RVal) (e : AnyV),
        Forall₂ ArgOk (inputs.map reflected) args →
        (∀ dv, e = some dv → implements dv.ty .error = true) →
        beh args = some (results (some v) (some e)) →
        call c beh args = faithful (some v) (some e)) ∧
    ((∀ as, beh as ≠ none) →
      (∀ as res, beh as = some res → Forall₂ RVal.WellTyped c.sig.results res) →
      call c beh args ≠ .panic) := by
  have ⟨_, hp, ⟨t, hr, _⟩, hso, hdyn, _⟩ := newDynamic_ok inputs h false c hacc
  refine ⟨?_, ?_, ?_, ?_⟩
  · intro hl
    apply call_shape
    intro hf
    apply hl
    have := forall₂_length hf
    rw [hp] at this
    simpa using this.symm
  · intro hf
    apply call_shape
    rw [hp]
    exact hf
  · intro v e hargs herr hbeh
    rw [← hp] at hargs
    rw [call_welltyped c beh args hargs, hbeh]
    apply unpack_faithful c (some v) (some e)
    · rw [hso, hdyn]; rfl
    · intro dv hdv
      apply herr dv
      cases hdv
      rfl
  · intro hnp hwt
    by_cases hf : Forall₂ ArgOk c.sig.params args
    · rw [call_welltyped c beh args hf]
      cases hb : beh args with
      | none => exact absurd hb (hnp args)
      | some res =>
        simp only
        apply unpack_no_panic c res (some t) true
        · rw [hr]; rfl
        · rw [hso, hdyn]; rfl
        · exact hwt args res hb
    · rw [call_shape c beh args hf]
      intro hh
      cases hh

/-! ## Non-vacuity: concrete instances -/

/-- `func(int64, []string) (string, error)` for inputs (int, list[string]), output string, error -/
def exSig : Sig := ⟨[.int64, .slice .string], [.string, .error], false⟩
def exDecl : Decl := ⟨[.int, .list .string], some .string, true⟩
def exCallable : Callable := ⟨exSig, true, false, true⟩

example : acceptsStatic exDecl (.func exSig) = true := by decide
example : ∃ s : Sig, HandlerV.func exSig = .func s ∧ s.params = exDecl.inputs.map reflected ∧
    s.results = expectedResults exDecl.output exDecl.outputsError := ⟨exSig, rfl, rfl, rfl⟩
example : newStatic exDecl (.func exSig) = .ok exCallable := rfl
/-- rejected: the last result is a non-interface type that is only CALLED "error" -/
example : acceptsStatic ⟨[], none, true⟩ (.func ⟨[], [GoType.fakeError], false⟩) = false := by decide
/-- the check by name that the code used before accepted it (defect D21) ... -/
example : acceptsStaticByName ⟨[], none, true⟩ (.func ⟨[], [GoType.fakeError], false⟩) = true := by
  decide
/-- ... and `Call` on the function so accepted panics in `IsNil` whatever the handler returns -/
example (n : Bool) (d : V) :
    call ⟨⟨[], [GoType.fakeError], false⟩, false, false, true⟩
      (fun _ => some [RVal.conc GoType.fakeError n d]) [] = .panic := rfl
example : acceptsStatic exDecl .untypedNil = false := by decide
example : acceptsStatic exDecl (.nilFunc exSig) = false := by decide
example : acceptsStatic exDecl (.func ⟨[.int64, .slice .any], [.string, .error], false⟩) = false := by
  decide
example : acceptsStatic exDecl (.func ⟨[.int64, .slice .string], [.string, .error, .error], false⟩)
    = false := by decide

/-- dynamic: `func(any) (any, error)` -/
def exDynSig : Sig := ⟨[.any], [.any, .error], false⟩
def exDynCallable : Callable := ⟨exDynSig, false, true, true⟩
example : acceptsDynamic [.any] (.func exDynSig) false = true := by decide
example : newDynamic [.any] (.func exDynSig) false = .ok exDynCallable := rfl
example : acceptsDynamic [.any] (.func exDynSig) true = false := by decide
/-- any interface type passes as the first result, e.g. `fmt.Stringer`-like named interfaces -/
example : acceptsDynamic [] (.func ⟨[], [.named "p" "Fooer" .iface .other, .error], false⟩) false
    = true := by decide
example : acceptsDynamic [] (.func ⟨[], [.int64, .error], false⟩) false = false := by decide

/-- a handler for `exSig`: returns its first list element count as text ... here simply a constant,
    failing when the integer argument is negative -/
def exBeh : Beh := fun as =>
  match as with
  | [some ⟨.int64, .int .int64 n⟩, _] =>
    if n < 0 then
      some (results (some (.conc .string false (.str ""))) (some (some ⟨.named "p" "myErr" .struct .error, .opaque⟩)))
    else some (results (some (.conc .string false (.str "ok"))) (some none))
  | _ => none

def exArgs (n : Int) : List AnyV := [some ⟨.int64, .int .int64 n⟩, some ⟨.slice .string, .list []⟩]

/-- the hypotheses of part 3 hold for `exArgs 1` and the call returns the handler's value -/
example : Forall₂ ArgOk (exDecl.inputs.map reflected) (exArgs 1) :=
  .cons (by show assignable _ _ = true; decide) (.cons (by show assignable _ _ = true; decide) .nil)
example : exBeh (exArgs 1) = some (results (some (.conc .string false (.str "ok"))) (some none)) := rfl
example : call exCallable exBeh (exArgs 1) = .value (some ⟨.string, .str "ok"⟩) := rfl
/-- a handler error is function-reported -/
example : call exCallable exBeh (exArgs (-1)) = .errFn ⟨.named "p" "myErr" .struct .error, .opaque⟩ :=
  rfl
/-- arity mismatch and ill-typed arguments are call errors -/
example : call exCallable exBeh [] = .errCall := rfl
example : call exCallable exBeh [some ⟨.string, .str "x"⟩, some ⟨.slice .string, .list []⟩] = .errCall :=
  rfl
example : call exCallable exBeh [none, some ⟨.slice .string, .list []⟩] = .errCall := rfl
/-- untyped nil is a value of type `any` -/
example : call exDynCallable (fun as => some [.iface .any (as.head?.join), .iface .error none]) [none]
    = .value none := rfl

end Arca.Func

#print axioms Arca.Func.C18_accept_iff
#print axioms Arca.Func.C18_dynamic_iff
#print axioms Arca.Func.C18_call_faithful
#print axioms Arca.Func.C18_call_faithful_dynamic
