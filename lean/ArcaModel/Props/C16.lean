import ArcaModel.Lemmas.Units
import ArcaModel.Lemmas.UnitsFloat
/-
  Property C16: unit formatting and parsing are inverse; parsing never returns a wrong number.

  Model: `Units.formatShortInt`, `Units.formatLongInt` (Model/Units.lean) and `Units.parseInt`
  (Model/Scalar.lean: the leftmost-first backtracking matcher of the regexp that
  `updateReCache` builds, then the checked int64 accumulation).

  Proved here, for ALL integers and ALL definitions satisfying the decidable predicate `WFu`:
    * `C16_roundtrip_short`, `C16_roundtrip_long`   parse (format n) = n for 0 ≤ n in int64;
    * `C16_grammar`            any string of the unit grammar (one optional `count ws* name ws*`
                               token per unit in the sorted order, base name optional, surrounded by
                               Unicode white space) parses to the exact sum of count × multiplier if
                               that sum fits int64 and is REJECTED otherwise;
  and for ALL definitions (no well-formedness needed) and ALL strings:
    * `C16_no_wrong_number`    a successful parse returns exactly the mathematical sum of the
                               captured digit strings times their multipliers (never a wrapped value);
    * `C16_reject`             a successful parse implies that the trimmed input is a string of the
                               unit grammar and the result is its value: every other string is an error.
  Float parser, for ALL definitions, ALL strings and EVERY externals table `x : Ext`
  (`x.parseFloat` = `strconv.ParseFloat`):
    * `C16_float_of_int`       `ParseInt s = n` implies `ParseFloat s = float64(n)` (no
                               representability assumption: the code keeps the exact int64 sum);
    * `C16_float_no_dot`       an input without '.' : `ParseFloat s = (ParseInt s).map float64`;
    * `C16_float_reject`       a successful `ParseFloat` implies that the trimmed input is a string of
                               the float unit grammar (base count `digits` or `digits.digits`) and the
                               result is exactly `float64(exact integer sum)` resp. the left-to-right
                               float accumulator plus `strconv(base) * float64(1)`; everything else,
                               and every integer part beyond int64, is an error;
    * `C16_float_grammar`      (needs `WFu`) conversely every string of the float grammar is accepted
                               under exactly those conditions, with that value.
  NOT proved (stated honestly): the FORMATTER side of the float clause - that
  `FormatShortFloat/FormatLongFloat` followed by `ParseFloat` is within floating-point tolerance of
  the original, and any bound on the rounding error of the `F64.add/F64.mul` expression above.
  `fmt.Sprintf("%f")`, `strconv.ParseFloat` and the float arithmetic of the formatter are externals of
  the model; that part is checked by the harness oracle (`harness units`, stream "floats") only.
-/
namespace Arca

/-! ### round trip -/

/-- all-absent multiplier tokens -/
theorem piecesOK_none (gs : List (List String)) : PiecesOK gs (gs.map fun _ => none) := by
  induction gs with
  | nil => exact .nil
  | cons g gs ih => exact .cons (fun p hp => by cases hp) ih

theorem renderAll_none (gs : List (List String)) (bp : Option Piece) :
    renderAll (gs.map fun _ => none) bp = renderOpt bp := by
  induction gs with
  | nil => rfl
  | cons g gs ih => simp [renderAll, renderOpt, ih]

theorem capSum_none (gs : List (List String)) (ms : List Int) :
    capSum ((gs.map fun _ => (none : Option Piece)).map capOf) ms = 0 := by
  induction gs generalizing ms with
  | nil => simp [capSum]
  | cons g gs ih =>
    cases ms with
    | nil => simp [capSum]
    | cons m ms =>
      simp only [List.map_cons, capSum, capOf_none, capVal_empty, Int.zero_mul, Int.zero_add]
      exact ih ms

/-- the zero rendering `"0" ++ name` parses to 0 -/
theorem parseInt_zero (u : Units) (hu : WFu u) (s n : String) (hn : n ∈ u.base.all)
    (hs : s.toList = '0' :: n.toList) : u.parseInt s = some 0 := by
  obtain ⟨hwf, hend, hms⟩ := hu.groupsWF
  let p : Piece := ⟨['0'], [], n.toList, []⟩
  have hp : BasePieceOK u.base.all p :=
    ⟨by simp [p], by intro c hc; simp [p] at hc; subst hc; decide, allWS_nil, allWS_nil,
      Or.inr ⟨n, hn, rfl⟩⟩
  have hr : renderAll (((sortDesc u.mults).map (·.2.all)).map fun _ => none) (some p) =
      '0' :: n.toList := by
    rw [renderAll_none]; simp [renderOpt, Piece.render, p]
  have := parseInt_render u s [] [] _ (some p) hwf hend hms (by rw [hr]; simpa using hs)
    (fun c hc => by cases hc) (fun c hc => by cases hc) (piecesOK_none _)
    (fun q hq => by cases hq; exact hp) (by rw [hr]; simp)
  rw [this]
  have ht : renderTotal (((sortDesc u.mults).map (·.2.all)).map fun _ => none) (some p)
      ((sortDesc u.mults).map (·.1)) = 0 := by
    unfold renderTotal
    rw [capSum_none]
    simp [capOf, capVal, p, decVal]
  rw [ht]
  simp [maxInt64]

theorem parse_fmtGroups (u : Units) (hu : WFu u) (f : Int → UnitNames → Bool → String)
    (hf : FmtSpec f) (n : Int) (h0 : 0 < n) (hn : inInt64 n = true) :
    u.parseInt (fmtGroups f u.base (sortDesc u.mults) n) = some n := by
  obtain ⟨hwf, hend, hms⟩ := hu.groupsWF
  have hmax : n ≤ maxInt64 := by
    unfold inInt64 at hn
    simp only [Bool.and_eq_true, decide_eq_true_eq] at hn
    exact hn.2
  have hms' : ∀ x ∈ sortDesc u.mults, 1 ≤ x.1 :=
    fun x hx => hms x.1 (List.mem_map.mpr ⟨x, hx, rfl⟩)
  obtain ⟨ps, bp, hv, hb, hl, ht, hne⟩ :=
    fmtGroups_render f hf u.base (sortDesc u.mults) n (by omega) hmax hms'
  have := parseInt_render u _ [] [] ps bp hwf hend hms (by simpa using hl)
    (fun c hc => by cases hc) (fun c hc => by cases hc) hv hb (hne h0)
  rw [this, ht]
  simp [hmax]

/-- **C16 (integers, short form).** Formatting a non-negative int64 in the short form and parsing
    the result gives the number back, for every well-formed definition. -/
theorem C16_roundtrip_short (u : Units) (n : Int) (hu : WFu u) (h0 : 0 ≤ n)
    (hn : inInt64 n = true) : u.parseInt (u.formatShortInt n) = some n := by
  unfold Units.formatShortInt
  by_cases hz : n = 0
  · subst hz
    apply parseInt_zero u hu _ u.base.sp (by simp [UnitNames.all])
    simp [fmtCountShort, String.toList_append, fmtInt_nonneg, Nat.toDigits_of_lt_base]
  · have : (n == 0) = false := by simpa using hz
    rw [this]
    exact parse_fmtGroups u hu _ fmtCountShort_spec n (by omega) hn

/-- **C16 (integers, long form).** -/
theorem C16_roundtrip_long (u : Units) (n : Int) (hu : WFu u) (h0 : 0 ≤ n)
    (hn : inInt64 n = true) : u.parseInt (u.formatLongInt n) = some n := by
  unfold Units.formatLongInt
  by_cases hz : n = 0
  · subst hz
    apply parseInt_zero u hu _ u.base.lp (by simp [UnitNames.all])
    simp [fmtCountLong, String.toList_append, fmtInt_nonneg, Nat.toDigits_of_lt_base]
  · have : (n == 0) = false := by simpa using hz
    rw [this]
    exact parse_fmtGroups u hu _ fmtCountLong_spec n (by omega) hn

/-! ### the grammar -/

/-- **C16 (grammar).** Take the multiplier units in the order the code sorts them (descending), and
    for each one either nothing or a token `digits ws* name ws*` (`PiecesOK`: the digit string is
    non-empty, `ws` is ASCII white space, `name` is any of the unit's four names), then optionally a
    base-unit token whose name may be omitted (`BaseOK`); surround the concatenation by any Unicode
    white space. If at least one token is present, `ParseInt` returns exactly
    `Σ value(digits) × multiplier` (`renderTotal`) when that sum fits int64, and an error otherwise
    (never a wrapped or partial number). -/
theorem C16_grammar (u : Units) (hu : WFu u) (lead trail : List Char) (ps : List (Option Piece))
    (bp : Option Piece) (hlead : AllUni lead) (htrail : AllUni trail)
    (hps : PiecesOK ((sortDesc u.mults).map (·.2.all)) ps) (hbp : BaseOK u.base.all bp)
    (hne : renderAll ps bp ≠ []) :
    u.parseInt (String.ofList (lead ++ (renderAll ps bp ++ trail))) =
      if renderTotal ps bp ((sortDesc u.mults).map (·.1)) ≤ maxInt64
      then some (renderTotal ps bp ((sortDesc u.mults).map (·.1))) else none := by
  obtain ⟨hwf, hend, hms⟩ := hu.groupsWF
  exact parseInt_render u _ lead trail ps bp hwf hend hms String.toList_ofList hlead htrail hps hbp hne

/-- the value of a rendering is the sum of its tokens' values times the multipliers -/
theorem renderTotal_cons (o : Option Piece) (ps : List (Option Piece)) (bp : Option Piece) (m : Int)
    (ms : List Int) :
    renderTotal (o :: ps) bp (m :: ms) = capVal (capOf o) * m + renderTotal ps bp ms := by
  simp [renderTotal, capSum, Int.add_assoc]

theorem capVal_capOf_some (p : Piece) : capVal (capOf (some p)) = (decVal p.ds : Int) := by
  simp [capVal, capOf]

/-- the rendering of a natural number has that value -/
theorem decVal_repr (n : Nat) : decVal (Nat.repr n).toList = n := by
  simp [Nat.repr, (toDigits_spec n).2.2]

/-- **C16 (overflow is rejected).** A well-formed string whose value does not fit int64 is an
    error. -/
theorem C16_grammar_overflow (u : Units) (hu : WFu u) (lead trail : List Char)
    (ps : List (Option Piece)) (bp : Option Piece) (hlead : AllUni lead) (htrail : AllUni trail)
    (hps : PiecesOK ((sortDesc u.mults).map (·.2.all)) ps) (hbp : BaseOK u.base.all bp)
    (hne : renderAll ps bp ≠ [])
    (hbig : maxInt64 < renderTotal ps bp ((sortDesc u.mults).map (·.1))) :
    u.parseInt (String.ofList (lead ++ (renderAll ps bp ++ trail))) = none := by
  rw [C16_grammar u hu lead trail ps bp hlead htrail hps hbp hne]
  have : ¬ renderTotal ps bp ((sortDesc u.mults).map (·.1)) ≤ maxInt64 := by omega
  simp [this]

/-! ### never a wrong number (all definitions, all strings) -/

/-- **C16 (no wrong number).** Whatever the definition and the input: if `ParseInt` returns a number
    then the regexp matched with captures `caps` (one per multiplier, in sorted order) and `b` (base
    unit), each capture is a (possibly empty) string of ASCII digits, and the number is EXACTLY
    `Σ value(caps i) × multiplier i + value(b)` computed in ℤ; it lies in the int64 range. -/
theorem C16_no_wrong_number (u : Units) (s : String) (v : Int) (h : u.parseInt s = some v) :
    ∃ caps b,
      matchGroups ((sortDesc u.mults).map (·.2.all)) u.base.all (skipWS (trimSpace s.toList)) =
        some (caps, b) ∧
      (∀ c ∈ caps, AllDigits c.toList) ∧ AllDigits b.toList ∧ caps.length = u.mults.length ∧
      v = capSum caps ((sortDesc u.mults).map (·.1)) + capVal b ∧ inInt64 v = true := by
  rw [parseInt_eq] at h
  split at h
  · cases h
  · split at h
    · cases h
    · next caps b hm =>
      obtain ⟨hc, hb, hlen⟩ := matchGroups_cap _ _ _ _ _ hm
      split at h
      · cases h
      · next acc hgo =>
        have hacc : inInt64 acc = true := go_inInt64 _ _ 0 acc (by decide) hgo
        have hex := go_exact _ _ 0 acc hc hgo
        obtain ⟨hbD, hv, hin⟩ := baseStage_exact acc b v hb hacc h
        refine ⟨caps, b, hm, hc, hbD, ?_, ?_, hin⟩
        · rw [hlen, List.length_map]; exact (sortDesc_perm u.mults).length_eq
        · rw [hv, hex]; omega

/-- **C16 (everything else is rejected).** Whatever the definition and the input: if `ParseInt`
    returns a number, then the input with its surrounding white space removed IS a string of the unit
    grammar (one optional `digits ws* name ws*` token per multiplier unit in sorted order, then the
    optional base token; at least one token), and the number is the value of that rendering.
    Contrapositive: every string outside the grammar is an error. Together with `C16_grammar` this
    characterises `ParseInt` on well-formed definitions completely. -/
theorem C16_reject (u : Units) (s : String) (v : Int) (h : u.parseInt s = some v) :
    ∃ ps bp, PiecesOK ((sortDesc u.mults).map (·.2.all)) ps ∧ BaseOK u.base.all bp ∧
      skipWS (trimSpace s.toList) = renderAll ps bp ∧ renderAll ps bp ≠ [] ∧
      skipWS (trimSpace s.toList) = trimSpace s.toList ∧
      v = renderTotal ps bp ((sortDesc u.mults).map (·.1)) ∧ inInt64 v = true := by
  obtain ⟨caps, b, hm, _, hb, _, hv, hin⟩ := C16_no_wrong_number u s v h
  have hne : (trimSpace s.toList).isEmpty = false := by
    rw [parseInt_eq] at h
    cases he : (trimSpace s.toList).isEmpty with
    | false => rfl
    | true => rw [he] at h; simp at h
  obtain ⟨hsk, hnn⟩ := skipWS_trimSpace s.toList hne
  rcases matchGroups_sound _ _ _ caps b (skipWS_noWSHead _) hm with hdot | ⟨ps, bp, h1, h2, h3, h4, h5⟩
  · rw [no_dot_of_digits hb] at hdot; cases hdot
  · refine ⟨ps, bp, h1, h2, h3, ?_, hsk, ?_, hin⟩
    · rw [← h3, hsk]; exact hnn
    · rw [hv, h4, h5]; rfl

/-- **C16 as far as it is proved** (the `_partial` of BUILDING.md): the whole integer half of the
    property for a well-formed definition - both round trips, the grammar with exact value or
    rejection on overflow, and rejection of every string outside the grammar.
    MISSING: the float clause ("within floating-point tolerance" for `FormatShortFloat` /
    `FormatLongFloat` followed by `ParseFloat`). Its parser half is characterised exactly by
    `C16_float_of_int`, `C16_float_reject` and `C16_float_grammar` below; what remains unproved is
    the formatter half and the numeric tolerance: `%f`, `strconv.ParseFloat` and the formatter's
    float arithmetic are externals of the model, covered by the harness oracle only. -/
theorem C16_partial (u : Units) (hu : WFu u) :
    (∀ n : Int, 0 ≤ n → inInt64 n = true →
      u.parseInt (u.formatShortInt n) = some n ∧ u.parseInt (u.formatLongInt n) = some n) ∧
    (∀ (lead trail : List Char) (ps : List (Option Piece)) (bp : Option Piece),
      AllUni lead → AllUni trail → PiecesOK ((sortDesc u.mults).map (·.2.all)) ps →
      BaseOK u.base.all bp → renderAll ps bp ≠ [] →
      u.parseInt (String.ofList (lead ++ (renderAll ps bp ++ trail))) =
        if renderTotal ps bp ((sortDesc u.mults).map (·.1)) ≤ maxInt64
        then some (renderTotal ps bp ((sortDesc u.mults).map (·.1))) else none) ∧
    (∀ (s : String) (v : Int), u.parseInt s = some v →
      ∃ ps bp, PiecesOK ((sortDesc u.mults).map (·.2.all)) ps ∧ BaseOK u.base.all bp ∧
        skipWS (trimSpace s.toList) = renderAll ps bp ∧ renderAll ps bp ≠ [] ∧
        v = renderTotal ps bp ((sortDesc u.mults).map (·.1)) ∧ inInt64 v = true) := by
  refine ⟨fun n h0 hn => ⟨C16_roundtrip_short u n hu h0 hn, C16_roundtrip_long u n hu h0 hn⟩,
    fun lead trail ps bp h1 h2 h3 h4 h5 => C16_grammar u hu lead trail ps bp h1 h2 h3 h4 h5, ?_⟩
  intro s v h
  obtain ⟨ps, bp, h1, h2, h3, h4, _, h6, h7⟩ := C16_reject u s v h
  exact ⟨ps, bp, h1, h2, h3, h4, h6, h7⟩

/-! ### the float parser (all definitions, all strings, all externals) -/

/-- **C16 (ParseFloat agrees with ParseInt).** Whatever the definition, the `strconv.ParseFloat`
    table and the input: if `ParseInt` returns `n`, `ParseFloat` returns exactly `float64(n)` - the
    exact integer sum, rounded once. No representability assumption is needed: the code keeps the
    exact int64 sum as long as no fraction occurs and converts at the end. -/
theorem C16_float_of_int (u : Units) (x : Ext) (s : String) (n : Int) (h : u.parseInt s = some n) :
    u.parseFloat x s = some (F64.ofInt n) := by
  rcases parseFloat_split u x s with ⟨_, _, h2⟩ | ⟨_, ⟨_, _, h2⟩ | ⟨caps, b, _, ⟨_, h2⟩ | ⟨_, h2, _⟩⟩⟩
  · rw [h] at h2; cases h2
  · rw [h] at h2; cases h2
  · rw [h2, h]; rfl
  · rw [h] at h2; cases h2

/-- **C16 (ParseFloat without a decimal point is ParseInt).** Explicit decidable hypothesis: the
    input contains no '.'. Then every captured count is an integer literal and `ParseFloat` succeeds
    exactly when `ParseInt` does, with `float64` of its result. -/
theorem C16_float_no_dot (u : Units) (x : Ext) (s : String) (hs : s.toList.contains '.' = false) :
    u.parseFloat x s = (u.parseInt s).map F64.ofInt := by
  rcases parseFloat_split u x s with ⟨_, h1, h2⟩ | ⟨_, ⟨_, h1, h2⟩ | ⟨caps, b, hm, ⟨_, h2⟩ | ⟨hd, _, _⟩⟩⟩
  · rw [h1, h2]; rfl
  · rw [h1, h2]; rfl
  · exact h2
  · exfalso
    have := mem_of_mem_skipWS_trimSpace (dot_mem_of_capture _ _ _ caps b (skipWS_noWSHead _) hm hd)
    rw [List.contains_iff_mem.mpr this] at hs
    cases hs

/-- **C16 (ParseFloat: no wrong number, everything else rejected).** Whatever the definition, the
    `strconv.ParseFloat` table `x` and the input: if `ParseFloat` returns `f`, then the input with its
    surrounding white space removed IS a string of the float unit grammar - one optional
    `digits ws* name ws*` token per multiplier unit in sorted order (`PiecesOK`), then the optional
    base token whose count is `digits` or `digits.digits` (`BaseOKF`), at least one token - the exact
    integer sum of the multiplier tokens fits int64, and `f` is exactly:
    * no fraction in the base count: `float64` of the exact integer sum `Σ count × multiplier`
      (which fits int64 and is what `ParseInt` returns);
    * a fraction in the base count: the float accumulator of the multiplier tokens - left to right
      from 0, `+ float64(count × multiplier)` with the exact int64 product (`capFSum`) - plus
      `strconv.ParseFloat(base count) × float64(1)`.
    So the only roundings are those of `float64(int64)`, IEEE `+`/`×` and strconv: never a wrong
    token, a skipped token, a wrong multiplier or a reordering; every string outside the grammar,
    and every string whose integer part leaves int64, is an error.
    (The code multiplies integer counts exactly in int64 - it does NOT compute
    `ParseFloat(count) × float64(multiplier)` for them - and this is what is stated.) -/
theorem C16_float_reject (u : Units) (x : Ext) (s : String) (f : Nat)
    (h : u.parseFloat x s = some f) :
    ∃ ps bp, PiecesOK ((sortDesc u.mults).map (·.2.all)) ps ∧ BaseOKF u.base.all bp ∧
      skipWS (trimSpace s.toList) = renderAll ps bp ∧ renderAll ps bp ≠ [] ∧
      skipWS (trimSpace s.toList) = trimSpace s.toList ∧
      inInt64 (capSum (ps.map capOf) ((sortDesc u.mults).map (·.1))) = true ∧
      (((capOf bp).toList.contains '.' = false ∧ BaseOK u.base.all bp ∧
          inInt64 (renderTotal ps bp ((sortDesc u.mults).map (·.1))) = true ∧
          u.parseInt s = some (renderTotal ps bp ((sortDesc u.mults).map (·.1))) ∧
          f = F64.ofInt (renderTotal ps bp ((sortDesc u.mults).map (·.1)))) ∨
       ((capOf bp).toList.contains '.' = true ∧ u.parseInt s = none ∧
          ∃ fb, x.parseFloat (capOf bp) = some fb ∧
            f = F64.add (capFSum (ps.map capOf) ((sortDesc u.mults).map (·.1)) 0)
                  (F64.mul fb (F64.ofInt 1)))) := by
  rcases parseFloat_split u x s with ⟨_, h1, _⟩ | ⟨hne, ⟨_, h1, _⟩ | ⟨caps, b, hm, hcase⟩⟩
  · rw [h] at h1; cases h1
  · rw [h] at h1; cases h1
  · obtain ⟨hsk, hnn⟩ := skipWS_trimSpace s.toList hne
    obtain ⟨ps, bp, h1, h2, h3, h4, h5⟩ :=
      matchGroups_soundF _ _ _ caps b (skipWS_noWSHead _) hm
    obtain ⟨hc, _, _⟩ := matchGroups_cap _ _ _ _ _ hm
    have hne' : renderAll ps bp ≠ [] := by rw [← h3, hsk]; exact hnn
    rcases hcase with ⟨hd, hpf⟩ | ⟨hd, hpi, hpf⟩
    · -- integer base count: ParseFloat = float64(ParseInt)
      rw [h] at hpf
      cases hn : u.parseInt s with
      | none => rw [hn] at hpf; cases hpf
      | some n =>
        rw [hn] at hpf
        have hf : f = F64.ofInt n := Option.some.inj hpf
        obtain ⟨caps', b', hm', _, _, _, hv, hin⟩ := C16_no_wrong_number u s n hn
        rw [hm] at hm'
        obtain ⟨e1, e2⟩ := Prod.mk.inj (Option.some.inj hm')
        subst e1; subst e2
        have hn' : n = renderTotal ps bp ((sortDesc u.mults).map (·.1)) := by
          rw [hv, h4, h5]; rfl
        have hgo : ∃ acc, Units.parseInt.go caps ((sortDesc u.mults).map (·.1)) 0 = some acc := by
          rw [parseInt_eq, hne, hm] at hn
          simp only [Bool.false_eq_true, if_false] at hn
          cases hg : Units.parseInt.go caps ((sortDesc u.mults).map (·.1)) 0 with
          | none => rw [hg] at hn; cases hn
          | some acc => exact ⟨acc, rfl⟩
        obtain ⟨acc, hg⟩ := hgo
        have hacc := go_exact _ _ 0 acc hc hg
        have hacc' := go_inInt64 _ _ 0 acc (by decide) hg
        refine ⟨ps, bp, h1, h2, h3, hne', hsk, ?_, Or.inl ⟨?_, ?_, ?_, ?_, ?_⟩⟩
        · rw [← h4, ← Int.zero_add (capSum caps _), ← hacc]; exact hacc'
        · rw [← h5]; exact hd
        · exact h2.toInt (by rw [← h5]; exact hd)
        · rw [← hn']; exact hin
        · rw [← hn']
        · rw [← hn']; exact hf
    · -- fractional base count
      rw [h] at hpf
      cases hg : Units.parseInt.go caps ((sortDesc u.mults).map (·.1)) 0 with
      | none => rw [hg] at hpf; cases hpf
      | some acc =>
        rw [hg] at hpf
        have hacc := go_exact _ _ 0 acc hc hg
        have hacc' := go_inInt64 _ _ 0 acc (by decide) hg
        cases hx : x.parseFloat b with
        | none => rw [hx] at hpf; cases hpf
        | some fb =>
          rw [hx] at hpf
          refine ⟨ps, bp, h1, h2, h3, hne', hsk, ?_, Or.inr ⟨?_, hpi, fb, ?_, ?_⟩⟩
          · rw [← h4, ← Int.zero_add (capSum caps _), ← hacc]; exact hacc'
          · rw [← h5]; exact hd
          · rw [← h5]; exact hx
          · rw [← h4]; exact Option.some.inj hpf

/-- **C16 (float grammar, well-formed definitions).** A string of the float unit grammar - one
    optional `digits ws* name ws*` token per multiplier unit in sorted order, then the optional base
    token whose count is `digits` or `digits.digits`, at least one token, surrounded by any Unicode
    white space - is accepted by `ParseFloat` exactly when the exact integer sum of the multiplier
    tokens fits int64 (and, without a fraction, the whole sum does; with a fraction, strconv accepts
    the base count), and the result is then the value described in `C16_float_reject`. -/
theorem C16_float_grammar (u : Units) (hu : WFu u) (x : Ext) (lead trail : List Char)
    (ps : List (Option Piece)) (bp : Option Piece) (hlead : AllUni lead) (htrail : AllUni trail)
    (hps : PiecesOK ((sortDesc u.mults).map (·.2.all)) ps) (hbp : BaseOKF u.base.all bp)
    (hne : renderAll ps bp ≠ []) :
    u.parseFloat x (String.ofList (lead ++ (renderAll ps bp ++ trail))) =
      if capSum (ps.map capOf) ((sortDesc u.mults).map (·.1)) ≤ maxInt64 then
        if (capOf bp).toList.contains '.' = true then
          (x.parseFloat (capOf bp)).map fun fb =>
            F64.add (capFSum (ps.map capOf) ((sortDesc u.mults).map (·.1)) 0)
              (F64.mul fb (F64.ofInt 1))
        else if renderTotal ps bp ((sortDesc u.mults).map (·.1)) ≤ maxInt64
          then some (F64.ofInt (renderTotal ps bp ((sortDesc u.mults).map (·.1)))) else none
      else none := by
  obtain ⟨hwf, hend, hms⟩ := hu.groupsWF
  obtain ⟨hne', hm⟩ := matchGroups_of_renderF _ _ _ lead trail ps bp hwf hend
    (String.toList_ofList (l := lead ++ (renderAll ps bp ++ trail))) hlead htrail hps hbp hne
  have hA := capSum_nonneg (ps.map capOf) _ hms
  have hV := capVal_nonneg (capOf bp)
  have hz : (0 : Int) ≤ maxInt64 := by unfold maxInt64; omega
  rcases parseFloat_split u x (String.ofList (lead ++ (renderAll ps bp ++ trail))) with
    ⟨h0, _, _⟩ | ⟨_, ⟨h0, _, _⟩ | ⟨caps, b, hm', hcase⟩⟩
  · rw [hne'] at h0; cases h0
  · rw [hm] at h0; cases h0
  · rw [hm] at hm'
    obtain ⟨e1, e2⟩ := Prod.mk.inj (Option.some.inj hm')
    subst e1; subst e2
    rcases hcase with ⟨hd, hpf⟩ | ⟨hd, _, hpf⟩
    · have hd' : ¬ ((capOf bp).toList.contains '.' = true) := by rw [hd]; simp
      rw [hpf, C16_grammar u hu lead trail ps bp hlead htrail hps (hbp.toInt hd) hne]
      simp only [hd']
      unfold renderTotal
      by_cases h1 : capSum (ps.map capOf) ((sortDesc u.mults).map (·.1)) ≤ maxInt64
      · simp only [h1, if_true]
        by_cases h2 : capSum (ps.map capOf) ((sortDesc u.mults).map (·.1)) + capVal (capOf bp) ≤ maxInt64
          <;> simp [h2]
      · have : ¬ (capSum (ps.map capOf) ((sortDesc u.mults).map (·.1)) + capVal (capOf bp) ≤ maxInt64) := by
          omega
        simp [h1, this]
    · rw [hpf, go_nonneg _ _ 0 (caps_allDigits hps) hms (by omega) hz]
      simp only [Int.zero_add, hd, if_true]
      by_cases h1 : capSum (ps.map capOf) ((sortDesc u.mults).map (·.1)) ≤ maxInt64 <;> simp [h1]

/-! ### non-vacuity: the five built-in definitions are well-formed; concrete evaluations -/

example : WFu UnitBytes := by decide
example : WFu UnitDurationNanoseconds := by decide
example : WFu UnitDurationSeconds := by decide
example : WFu UnitCharacters := by decide
example : WFu UnitPercentage := by decide

/-- `WFu` is not vacuous on generated definitions either: names that are prefixes of each other and
    names with regexp metacharacters are allowed -/
example : WFu ⟨⟨"m", "ms", "m.", "(m"⟩, [(7, ⟨"msx", "msx", "a|b", "k*"⟩), (8, ⟨"[u", "^", "$", ".."⟩)]⟩ := by
  decide

/-- a multiplier unit called "." is excluded (its strings are ambiguous: "1.5s") ... -/
example : ¬ WFu ⟨⟨"s", "s", "s", "s"⟩, [(60, ⟨".", ".", ".", "."⟩)]⟩ := by decide
/-- ... and indeed the round trip fails for it in the model (as it does in the Go code) -/
example : (⟨⟨"s", "s", "s", "s"⟩, [(60, ⟨".", ".", ".", "."⟩)]⟩ : Units).formatShortInt 125 = "2.5s" ∧
    (⟨⟨"s", "s", "s", "s"⟩, [(60, ⟨".", ".", ".", "."⟩)]⟩ : Units).parseInt "2.5s" = none := by decide

example : UnitDurationSeconds.formatShortInt 64 = "1m4s" := by decide
example : UnitDurationSeconds.parseInt "1m4s" = some 64 := by decide
example : UnitDurationSeconds.formatShortInt 10 = "10s" := by decide
example : UnitDurationSeconds.formatShortInt 0 = "0s" := by decide
example : UnitDurationSeconds.formatLongInt 3661 = "1hour1minute1second" := by decide
example : UnitDurationSeconds.parseInt "1hour1minute1second" = some 3661 := by decide
example : UnitDurationNanoseconds.parseInt "9999999999d" = none := by decide
example : UnitBytes.parseInt " 2 kB 5B " = some 2053 := by decide
example : UnitDurationSeconds.parseInt "4s1m" = none := by decide
example : UnitDurationSeconds.parseInt "1m1m" = none := by decide
example : UnitDurationSeconds.parseInt "1.5m" = none := by decide
example : UnitDurationSeconds.parseInt "-1m" = none := by decide

/-- the hypotheses of `C16_grammar` are satisfiable: the string `" 1 m 04seconds "` -/
example : UnitDurationSeconds.parseInt
    (String.ofList ([' '] ++ (renderAll [none, none, some ⟨['1'], [' '], ['m'], [' ']⟩]
      (some ⟨['0', '4'], [], "seconds".toList, [' ']⟩) ++ []))) = some 64 := by
  have hgs : (sortDesc UnitDurationSeconds.mults).map (·.2.all) =
      [["d", "d", "day", "days"], ["H", "H", "hour", "hours"], ["m", "m", "minute", "minutes"]] := by
    decide
  have hms : (sortDesc UnitDurationSeconds.mults).map (·.1) = [86400, 3600, 60] := by decide
  have hws : AllWS [' '] := by intro c hc; simp at hc; subst hc; decide
  have h := C16_grammar UnitDurationSeconds (by decide) [' '] []
    [none, none, some ⟨['1'], [' '], ['m'], [' ']⟩]
    (some ⟨['0', '4'], [], "seconds".toList, [' ']⟩)
    hws.allUni (fun c hc => by cases hc)
    (by
      rw [hgs]
      refine .cons (fun p hp => by cases hp) (.cons (fun p hp => by cases hp) (.cons ?_ .nil))
      intro p hp; cases hp
      exact ⟨by simp, by intro c hc; simp at hc; subst hc; decide, hws, hws, "m", by simp, by decide⟩)
    (by
      intro p hp; cases hp
      refine ⟨by simp, ?_, allWS_nil, hws, Or.inr ⟨"seconds", by simp [UnitDurationSeconds, UnitNames.all], rfl⟩⟩
      intro c hc; simp at hc; rcases hc with e | e <;> subst e <;> decide)
    (by simp [renderAll, renderOpt, Piece.render])
  rw [h, hms]
  decide

/-- overflow instance: 2^63 seconds is rejected -/
example : UnitDurationSeconds.parseInt "9223372036854775808s" = none := by decide
example : UnitDurationSeconds.parseInt "9223372036854775807s" = some 9223372036854775807 := by decide
example : UnitDurationSeconds.parseInt "106751991167301d" = none := by decide


/-! ### float parser: non-vacuity and concrete evaluations -/

/-- hypothesis of `C16_float_of_int` met: "1H30m" in seconds, for every externals table -/
example (x : Ext) : UnitDurationSeconds.parseFloat x "1H30m" = some (F64.ofInt 5400) :=
  C16_float_of_int UnitDurationSeconds x "1H30m" 5400 (by decide)
example : F64.ofInt 5400 = 0x40B5180000000000 := by decide
/-- hypothesis of `C16_float_no_dot` met -/
example (x : Ext) : UnitDurationSeconds.parseFloat x "1H30m" =
    (UnitDurationSeconds.parseInt "1H30m").map F64.ofInt :=
  C16_float_no_dot UnitDurationSeconds x "1H30m" (by decide)
example (x : Ext) : UnitDurationSeconds.parseFloat x "9223372036854775808s" = none := by
  rw [C16_float_no_dot UnitDurationSeconds x _ (by decide)]; decide

/-- an externals table that knows "1.5" (= 0x3FF8000000000000) -/
def extOneAndHalf : Ext :=
  { parseFloat := fun s => if s == "1.5" then some 0x3FF8000000000000 else none
    fmtF := fun _ => ""
    reCompiles := fun _ => false
    reMatch := fun _ _ => false }

/-- hypothesis of `C16_float_reject` met with a fraction: 61.5 = 0x404EC00000000000 -/
example : UnitDurationSeconds.parseFloat extOneAndHalf "1m1.5s" = some 0x404EC00000000000 := by
  decide +kernel
/-- a fraction in front of a multiplier unit is outside the grammar -/
example : UnitDurationSeconds.parseFloat extOneAndHalf "1.5m" = none := by decide

/-- the hypotheses of `C16_float_grammar` are satisfiable with a fractional base count: "1m1.5s" -/
example (x : Ext) : UnitDurationSeconds.parseFloat x
    (String.ofList ([] ++ (renderAll [none, none, some ⟨['1'], [], ['m'], []⟩]
      (some ⟨['1', '.', '5'], [], ['s'], []⟩) ++ []))) =
    (x.parseFloat "1.5").map fun fb => F64.add (F64.add 0 (F64.ofInt 60)) (F64.mul fb (F64.ofInt 1)) := by
  have hgs : (sortDesc UnitDurationSeconds.mults).map (·.2.all) =
      [["d", "d", "day", "days"], ["H", "H", "hour", "hours"], ["m", "m", "minute", "minutes"]] := by
    decide
  have hms : (sortDesc UnitDurationSeconds.mults).map (·.1) = [86400, 3600, 60] := by decide
  have h := C16_float_grammar UnitDurationSeconds (by decide) x [] []
    [none, none, some ⟨['1'], [], ['m'], []⟩] (some ⟨['1', '.', '5'], [], ['s'], []⟩)
    (fun c hc => by cases hc) (fun c hc => by cases hc)
    (by
      rw [hgs]
      refine .cons (fun p hp => by cases hp) (.cons (fun p hp => by cases hp) (.cons ?_ .nil))
      intro p hp; cases hp
      exact ⟨by simp, by intro c hc; simp at hc; subst hc; decide, allWS_nil, allWS_nil, "m", by simp,
        by decide⟩)
    (by
      intro p hp; cases hp
      refine ⟨Or.inr ⟨['1'], ['5'], rfl, by simp, ?_, by simp, ?_⟩, allWS_nil, allWS_nil,
        Or.inr ⟨"s", by simp [UnitDurationSeconds, UnitNames.all], by decide⟩⟩
      · intro c hc; simp at hc; subst hc; decide
      · intro c hc; simp at hc; subst hc; decide)
    (by simp [renderAll, renderOpt, Piece.render])
  rw [h, hms]
  have h1 : capSum (List.map capOf [none, none, some (⟨['1'], [], ['m'], []⟩ : Piece)]) [86400, 3600, 60] = 60 := by
    decide
  have h2 : (capOf (some (⟨['1', '.', '5'], [], ['s'], []⟩ : Piece))).toList.contains '.' = true := by
    decide
  have h3 : capFSum (List.map capOf [none, none, some (⟨['1'], [], ['m'], []⟩ : Piece)]) [86400, 3600, 60] 0 =
      F64.add 0 (F64.ofInt 60) := by
    decide +kernel
  have h4 : capOf (some (⟨['1', '.', '5'], [], ['s'], []⟩ : Piece)) = "1.5" := by decide
  rw [h1, h2, h3, h4]
  simp [maxInt64]

end Arca

#print axioms Arca.C16_roundtrip_short
#print axioms Arca.C16_roundtrip_long
#print axioms Arca.C16_grammar
#print axioms Arca.C16_grammar_overflow
#print axioms Arca.C16_no_wrong_number
#print axioms Arca.C16_reject
#print axioms Arca.C16_partial
#print axioms Arca.C16_float_of_int
#print axioms Arca.C16_float_no_dot
#print axioms Arca.C16_float_reject
#print axioms Arca.C16_float_grammar
