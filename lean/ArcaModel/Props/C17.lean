import ArcaModel.Props.C03
import ArcaModel.Lemmas.PathLeads
/-
  C17  A rejection names the offending element: the error is a constraint error whose path is the
       sequence of property names, list indices and map keys from the root to the element.

  The theorems are compositional: each says how one schema level prefixes exactly its own segment to
  the path reported by the level below when that level holds the only fault. Chaining them along the
  position of the offending element gives the full path.
-/
namespace Arca
open Out

/-- the error an operation returned, if any -/
def errOf {α} : Out α → Option Err
  | .err e => some e
  | _ => none

/-! ### leaves: a rejection by a scalar schema is a constraint error with the empty path -/

def Ty.isScalar : Ty → Bool
  | .int _ _ _ | .float _ _ _ | .str _ _ _ | .bool | .pattern | .enumInt _ _ | .enumStr _ => true
  | _ => false

theorem rewrapC_err {α} {a : Out α} {e : Err} (h : rewrapC a = .err e) : e = ⟨true, []⟩ := by
  cases a <;> simp [rewrapC, cerr] at h
  exact h.symm

theorem bind_eq_err {α β} {a : Out α} {f : α → Out β} {e : Err} (h : a.bind f = .err e) :
    a = .err e ∨ ∃ x, a = .ok x ∧ f x = .err e := by
  cases a <;> simp_all [Out.bind]

theorem checkInt_err {a b : Option Int} {n : Int} {e : Err} (h : checkInt a b n = .err e) : e = ⟨true, []⟩ := by
  unfold checkInt at h
  (repeat' split at h) <;> simp [cerr] at h <;> exact h.symm

theorem checkLen_err {a b : Option Int} {n : Nat} {e : Err} (h : checkLen a b n = .err e) : e = ⟨true, []⟩ := by
  unfold checkLen at h
  (repeat' split at h) <;> simp [cerr] at h <;> exact h.symm

theorem checkFloat_err {a b : Option Nat} {n : Nat} {e : Err} (h : checkFloat a b n = .err e) : e = ⟨true, []⟩ := by
  unfold checkFloat at h
  (repeat' split at h) <;> simp [cerr] at h <;> exact h.symm

theorem checkStr_err {x : Ext} {a b : Option Int} {p : Option String} {s : String} {e : Err}
    (h : checkStr x a b p s = .err e) : e = ⟨true, []⟩ := by
  unfold checkStr at h
  cases hl : checkLen a b s.utf8ByteSize with
  | ok u =>
    rw [hl] at h
    simp only at h
    (repeat' split at h) <;> simp [cerr] at h <;> exact h.symm
  | err e' =>
    rw [hl] at h
    simp at h
    subst h
    exact checkLen_err hl
  | panic => rw [hl] at h; simp at h
  | fuel => rw [hl] at h; simp at h

/-- Every rejection of a raw value by a scalar schema's Unserialize - wrong type, unparsable string,
    out of bounds, length, pattern, not in the enum - is a constraint error with the empty path. -/
theorem C17_leaf (x : Ext) (fuel : Nat) (env : Env) (t : Ty) (v : V) (e : Err) (ht : t.isScalar = true)
    (h : run x (fuel + 1) .U env t v = .err e) : e = ⟨true, []⟩ := by
  cases t <;> simp [Ty.isScalar] at ht <;> simp only [run] at h
  · unfold runInt at h
    rcases bind_eq_err h with h1 | ⟨n, _, h2⟩
    · exact rewrapC_err h1
    · rcases bind_eq_err h2 with h3 | ⟨_, _, h4⟩
      · exact checkInt_err h3
      · simp at h4
  · unfold runFloat at h
    rcases bind_eq_err h with h1 | ⟨n, _, h2⟩
    · exact rewrapC_err h1
    · rcases bind_eq_err h2 with h3 | ⟨_, _, h4⟩
      · exact checkFloat_err h3
      · simp at h4
  · unfold runStr at h
    rcases bind_eq_err h with h1 | ⟨n, _, h2⟩
    · exact rewrapC_err h1
    · rcases bind_eq_err h2 with h3 | ⟨_, _, h4⟩
      · exact checkStr_err h3
      · simp at h4
  · unfold runBool at h
    rcases bind_eq_err h with h1 | ⟨n, _, h2⟩
    · unfold boolInputMapper at h1
      split at h1
      · simp at h1
      · split at h1 <;> simp [cerr] at h1
        exact h1.symm
      · simp only at h1
        (repeat' split at h1) <;> simp [cerr] at h1
        exact h1.symm
      · simp [cerr] at h1
        exact h1.symm
    · simp at h2
  · unfold runPattern at h
    rcases bind_eq_err h with h1 | ⟨n, _, h2⟩
    · exact rewrapC_err h1
    · split at h2 <;> simp [cerr] at h2
      exact h2.symm
  · unfold runEnumInt at h
    rcases bind_eq_err h with h1 | ⟨n, _, h2⟩
    · exact rewrapC_err h1
    · split at h2 <;> simp [cerr] at h2
      exact h2.symm
  · unfold runEnumStr at h
    rcases bind_eq_err h with h1 | ⟨n, _, h2⟩
    · exact rewrapC_err h1
    · split at h2 <;> simp [cerr] at h2
      exact h2.symm

/-! ### lists -/

theorem allIdx_of_forall2_addSeg {g : V → Out V} {n : Nat} {xs ys : List V}
    (h : Forall2 (fun e y => g e = .ok y) xs ys) : AllIdx (fun i e => (g e).addSeg (idxSeg i)) n xs ys :=
  allIdx_addSeg_iff.mpr h

/-- If the element at index `i` is the only one the item schema rejects (all earlier ones are
    accepted), the list reports the item's error with `[i]` prefixed to its path - and as a
    constraint error. -/
theorem C17_list_item (x : Ext) (fuel : Nat) (env : Env) (item : Ty) (min max : Option Int)
    (v : V) (pre : List V) (bad : V) (post pre' : List V) (e : Err)
    (hv : v.sliceElems? = some (pre ++ bad :: post))
    (hlen : LenOK min max (pre ++ bad :: post).length)
    (hpre : Forall2 (fun a y => run x fuel .U env item a = .ok y) pre pre')
    (hbad : run x fuel .U env item bad = .err e) :
    run x (fuel + 1) .U env (.list item min max) v = .err ⟨true, idxSeg pre.length :: e.path⟩ := by
  simp only [run, runList, hv, (checkLen_ok_iff _ _ _).mpr hlen, Out.bind]
  have := forIdx_err_first (f := fun i a => (run x fuel .U env item a).addSeg (idxSeg i)) (n := 0)
    (post := post) (allIdx_of_forall2_addSeg hpre) (x := bad) (e := ⟨true, idxSeg pre.length :: e.path⟩)
    (by simp [hbad, addSeg])
  rw [this]

/-! ### maps -/

/-- If the value under key `k` is the only fault (all earlier entries are accepted and the key
    itself is), the map reports the value's error with `[k]` prefixed. -/
theorem C17_map_value (x : Ext) (fuel : Nat) (env : Env) (kt vt : Ty) (min max : Option Int) (sh : MapShape)
    (pre : List (V × V)) (k bad : V) (post pre' : List (V × V)) (k' : V) (e : Err)
    (hlen : LenOK min max (pre ++ (k, bad) :: post).length)
    (hpre : Forall2 (fun kv kv' => run x fuel .U env kt kv.1 = .ok kv'.1 ∧ run x fuel .U env vt kv.2 = .ok kv'.2) pre pre')
    (hk : run x fuel .U env kt k = .ok k')
    (hbad : run x fuel .U env vt bad = .err e) :
    run x (fuel + 1) .U env (.map kt vt min max) (.map sh (pre ++ (k, bad) :: post)) =
      .err ⟨true, valSeg k :: e.path⟩ := by
  simp only [run, runMap, V.mapEntries?, (checkLen_ok_iff _ _ _).mpr hlen, Out.bind]
  have := forKV_err_first (f := entryKV (run x fuel) .U env kt vt) (post := post)
    (allKV_entry_iff.mpr hpre) (k := k) (v := bad) (e := ⟨true, valSeg k :: e.path⟩)
    (by simp [entryKV, hk, hbad, addSeg, Out.bind])
  rw [this]

/-- If the key `k` itself is the only fault, the map reports the key's error with `{k}` prefixed. -/
theorem C17_map_key (x : Ext) (fuel : Nat) (env : Env) (kt vt : Ty) (min max : Option Int) (sh : MapShape)
    (pre : List (V × V)) (k val : V) (post pre' : List (V × V)) (e : Err)
    (hlen : LenOK min max (pre ++ (k, val) :: post).length)
    (hpre : Forall2 (fun kv kv' => run x fuel .U env kt kv.1 = .ok kv'.1 ∧ run x fuel .U env vt kv.2 = .ok kv'.2) pre pre')
    (hbad : run x fuel .U env kt k = .err e) :
    run x (fuel + 1) .U env (.map kt vt min max) (.map sh (pre ++ (k, val) :: post)) =
      .err ⟨true, keySeg k :: e.path⟩ := by
  simp only [run, runMap, V.mapEntries?, (checkLen_ok_iff _ _ _).mpr hlen, Out.bind]
  have := forKV_err_first (f := entryKV (run x fuel) .U env kt vt) (post := post)
    (allKV_entry_iff.mpr hpre) (k := k) (v := val) (e := ⟨true, keySeg k :: e.path⟩)
    (by simp [entryKV, hbad, addSeg, Out.bind])
  rw [this]

/-! ### objects -/

/-- If the value of the present property `id` is the only fault - every EARLIER entry of the
    (defaulted) map is accepted by its property's type - the object reports the value's error
    with the property name prefixed. -/
theorem C17_obj_property (x : Ext) (fuel : Nat) (env : Env) (oid : String) (props : List (String × PropT))
    (sh : MapShape) (kvs : List (V × V)) (skvs pre post pre' : List (String × V)) (id : String) (p : PropT) (d : V) (e : Err)
    (hs : strKeys? kvs = some skvs) (hdecl : ∀ kv, kv ∈ skvs → hasKey kv.1 props = true)
    (hdef : applyDefaults props skvs = .ok (pre ++ (id, d) :: post))
    (hl : lookupS id props = some p) (hdis : p.disabled = false) (hbad : run x fuel .U env p.ty d = .err e)
    (hpre : AllSV (objEntryU (run x fuel) env props) pre pre') :
    run x (fuel + 1) .U env (.obj oid props) (.map sh kvs) = .err ⟨true, id :: e.path⟩ := by
  have hany : (skvs.any fun kv => !hasKey kv.1 props) = false := by
    cases h : skvs.any fun kv => !hasKey kv.1 props with
    | false => rfl
    | true =>
      obtain ⟨kv, hkv, hk⟩ := List.any_eq_true.mp h
      rw [hdecl kv hkv] at hk
      simp at hk
  simp only [run, runObj, objRaw, V.mapEntries?, hs, hany, hdef, Out.bind, Bool.false_eq_true, if_false]
  rw [forSV_err_first hpre (e := ⟨true, id :: e.path⟩) (by simp [objEntryU, hl, hdis, hbad, addSeg])]

theorem interdeps_go_cons (isSet : String → Bool) (id : String) (p : PropT) (rest : List (String × PropT)) :
    interdeps.go isSet ((id, p) :: rest) =
      if (interdeps.go isSet [(id, p)]).isOk then interdeps.go isSet rest else .cerrAt [id] := by
  simp only [interdeps.go]
  split <;> split <;> simp_all [cerrAt, Out.isOk]

theorem interdeps_go_single_iff (isSet : String → Bool) (id : String) (p : PropT) :
    (interdeps.go isSet [(id, p)]).isOk = true ↔ RuleHolds isSet id p := by
  have : (interdeps.go isSet [(id, p)]).isOk = true ↔ interdeps.go isSet [(id, p)] = .ok () := by
    cases interdeps.go isSet [(id, p)] <;> simp [Out.isOk]
  rw [this, interdeps_go_ok_iff]
  constructor
  · intro h; exact h (id, p) (by simp)
  · intro h np hnp; simp at hnp; subst hnp; exact h

/-- A missing required property (more generally: a property whose presence rule is the only one
    violated) is reported as a constraint error whose path is that property's name. -/
theorem C17_presence_rule (isSet : String → Bool) (id : String) (p : PropT) :
    ∀ (props : List (String × PropT)), (id, p) ∈ props → (props.map Prod.fst).Nodup →
      ¬ RuleHolds isSet id p → (∀ np, np ∈ props → np.1 ≠ id → RuleHolds isSet np.1 np.2) →
      interdeps props isSet = .err ⟨true, [id]⟩ := by
  intro props
  unfold interdeps
  induction props with
  | nil => intro hm; simp at hm
  | cons np rest ih =>
    obtain ⟨id0, p0⟩ := np
    intro hm hnd hbad hothers
    have hnd' : (rest.map Prod.fst).Nodup := by
      simp only [List.map_cons, List.nodup_cons] at hnd; exact hnd.2
    rw [interdeps_go_cons]
    rcases List.mem_cons.mp hm with heq | hm'
    · cases heq
      have : ¬ (interdeps.go isSet [(id, p)]).isOk = true := fun h => hbad ((interdeps_go_single_iff _ _ _).mp h)
      simp [this, cerrAt]
    · have hne : id0 ≠ id := by
        intro he; subst he
        simp only [List.map_cons, List.nodup_cons] at hnd
        exact hnd.1 (List.mem_map.mpr ⟨(id0, p), hm', rfl⟩)
      have h0 : RuleHolds isSet id0 p0 := hothers (id0, p0) List.mem_cons_self hne
      rw [if_pos ((interdeps_go_single_iff _ _ _).mpr h0)]
      exact ih hm' hnd' hbad (fun np hnp hne' => hothers np (List.mem_cons_of_mem _ hnp) hne')

/-- An undeclared key is reported as a constraint error at the enclosing object (empty relative
    path; the key is named in the message). -/
theorem C17_obj_undeclared_key (x : Ext) (fuel : Nat) (env : Env) (oid : String) (props : List (String × PropT))
    (sh : MapShape) (kvs : List (V × V)) (skvs : List (String × V)) (k : String) (v : V)
    (hs : strKeys? kvs = some skvs) (hk : (k, v) ∈ skvs) (hund : hasKey k props = false) :
    run x (fuel + 1) .U env (.obj oid props) (.map sh kvs) = .err ⟨true, []⟩ := by
  have hany : (skvs.any fun kv => !hasKey kv.1 props) = true :=
    List.any_eq_true.mpr ⟨(k, v), hk, by simp [hund]⟩
  simp [run, runObj, objRaw, V.mapEntries?, hs, hany, Out.bind, cerr]

/-! ### references, scopes and one-of add no segment -/

theorem C17_ref_passthrough (x : Ext) (fuel : Nat) (op : Op) (env : Env) (id : String) (o : Ty) (v : V)
    (hl : lookupS id env = some o) : run x (fuel + 1) op env (.ref id) v = run x fuel op env o v := by
  simp [run, hl]

theorem C17_scope_passthrough (x : Ext) (fuel : Nat) (op : Op) (env : Env) (objs : List (String × Ty)) (root : String)
    (o : Ty) (v : V) (hl : lookupS root objs = some o) :
    run x (fuel + 1) op env (.scope objs root) v = run x fuel op objs o v := by
  simp [run, hl]

/-- The selected member's rejection is the one-of's rejection, unchanged (the one-of level is not a
    property name, index or key). -/
theorem C17_oneof_passthrough (x : Ext) (fuel : Nat) (env : Env) (intKey : Bool) (disc : String) (inlined : Bool)
    (members : List (Key × Ty)) (sh : MapShape) (kvs : List (V × V))
    (dk d : V) (key : Key) (m : List (String × V)) (mt : Ty) (e : Err)
    (hsh : sh.key = .any ∨ sh.key = .string)
    (hfind : kvs.find? (isDiscKey disc) = some (dk, d))
    (hkey : DiscDenotes x intKey d key) (hm : strKeys? kvs = some m) (hmt : lookupK key members = some mt)
    (hbad : run x fuel .U env mt (toStrAny (if inlined then m else eraseKey disc m)) = .err e) :
    run x (fuel + 1) .U env (.oneOf intKey disc inlined members) (.map sh kvs) = .err e := by
  have hsh' : (sh.key == KeyTy.any || sh.key == KeyTy.string) = true := by
    rcases hsh with h | h <;> simp [h]
  have ht := (typedDisc_ok_iff x intKey d key).mpr hkey
  simp only [run, runOneOf, oneOfUnser, V.mapEntries?, hsh', Bool.not_true, Bool.false_eq_true, if_false, hfind]
  rw [ht]
  simp only [Out.bind, hm, hmt]
  rw [hbad]

#print axioms C17_leaf
#print axioms C17_list_item
#print axioms C17_map_value
#print axioms C17_map_key
#print axioms C17_obj_property
#print axioms C17_presence_rule
#print axioms C17_obj_undeclared_key
#print axioms C17_oneof_passthrough

/-! ### the composed statement: every rejection's path leads to the fault

The definitions are in `Lemmas/PathLeads.lean`:

* `Pos` - a position: operation, enclosing scope's objects, sub-schema, sub-value;
* `PathStep x p segs q` - one schema level at `p` hands `q`'s value to `q`'s schema under the segments
  `segs` (`[i]`, `[k]`, `{k}`, a property name, `{oneof[k]}` under Validate; NO segment for
  reference -> target, scope -> root, one-of -> selected member), one constructor per call site of the model;
* `Leads x p path q` - the reflexive-transitive closure, concatenating the segments;
* `FailsHere x n q` - `q`, run on its own, returns an error with the EMPTY path, and nothing `q` passes its
  value to without a segment is rejected: the rejection is `q`'s own;
* `NamesProperty x n q name` - the object level `q` rejects with the path `[name]` because the declared
  property `name` violates its presence rule (it is typically ABSENT) or is disabled. This is the
  one case where the last segment does not lead to a sub-value that is itself at fault, so the
  conclusion is a disjunction rather than a step of `Leads` to a value that is not there.

No well-formedness hypothesis is needed: on an ill-formed schema (dangling reference, scope
without root) the model panics, it does not return an error. -/

/-- C17, composed, for Unserialize, Validate and Serialize alike. EVERY error returned for ANY
    schema, value, externals and budget is located:
    (1) it is a `ConstraintError` unless its path is empty (see `C17_plain_error_sites` for which
        errors those are);
    (2) its path, followed segment by segment from the root, arrives at a position that is
        rejected by its own level (`FailsHere`) - or all but the last segment arrives at an object
        that rejects and names, in the last segment, the declared property whose presence rule is
        violated / which is disabled (`NamesProperty`). -/
theorem C17_path_leads (x : Ext) (n : Nat) (op : Op) (env : Env) (t : Ty) (v : V) (e : Err) (hop : op ≠ .C)
    (h : run x n op env t v = .err e) :
    (e.constraint = true ∨ e.path = []) ∧
    ((∃ q, Leads x ⟨op, env, t, v⟩ e.path q ∧ FailsHere x n q) ∨
     (∃ pre name q, e.path = pre ++ [name] ∧ Leads x ⟨op, env, t, v⟩ pre q ∧ NamesProperty x n q name)) := by
  have hv := verdict_aux x n op env t v e hop h
  refine ⟨?_, hv.1⟩
  rcases hv.2 with hc | ⟨hp, _⟩
  · exact Or.inl hc
  · exact Or.inr hp

/-- C17 for Unserialize: a rejection of raw input is a constraint error (unless its path is
    empty) whose path leads, segment by segment, to the sub-value its own sub-schema rejects. -/
theorem C17_path_leads_U (x : Ext) (n : Nat) (env : Env) (t : Ty) (v : V) (e : Err)
    (h : run x n .U env t v = .err e) :
    (e.constraint = true ∨ e.path = []) ∧
    ((∃ q, Leads x ⟨.U, env, t, v⟩ e.path q ∧ FailsHere x n q) ∨
     (∃ pre name q, e.path = pre ++ [name] ∧ Leads x ⟨.U, env, t, v⟩ pre q ∧ NamesProperty x n q name)) :=
  C17_path_leads x n .U env t v e (by simp) h

/-- C17 for Validate (native values; the one-of level contributes the segment `{oneof[key]}`). -/
theorem C17_path_leads_V (x : Ext) (n : Nat) (env : Env) (t : Ty) (v : V) (e : Err)
    (h : run x n .V env t v = .err e) :
    (e.constraint = true ∨ e.path = []) ∧
    ((∃ q, Leads x ⟨.V, env, t, v⟩ e.path q ∧ FailsHere x n q) ∨
     (∃ pre name q, e.path = pre ++ [name] ∧ Leads x ⟨.V, env, t, v⟩ pre q ∧ NamesProperty x n q name)) :=
  C17_path_leads x n .V env t v e (by simp) h

/-- C17 for Serialize (the position arrived at may be a Validate position: lists and maps
    validate every element before serializing it). -/
theorem C17_path_leads_S (x : Ext) (n : Nat) (env : Env) (t : Ty) (v : V) (e : Err)
    (h : run x n .S env t v = .err e) :
    (e.constraint = true ∨ e.path = []) ∧
    ((∃ q, Leads x ⟨.S, env, t, v⟩ e.path q ∧ FailsHere x n q) ∨
     (∃ pre name q, e.path = pre ++ [name] ∧ Leads x ⟨.S, env, t, v⟩ pre q ∧ NamesProperty x n q name)) :=
  C17_path_leads x n .S env t v e (by simp) h

/-- WHICH errors are not `ConstraintError`s. If the returned error is a plain one, then its path is
    empty and, following references / the scope root / the selected one-of member from the root
    (no segment), one arrives at one of exactly three sites (`PlainSite`) which itself returns the
    plain error: an any-schema (value of a defined integer or float32 type, integer beyond
    int64), a one-of unserializing `nil`, or the single-property shorthand of an object. Below a
    property, index or key every error is a constraint error. -/
theorem C17_plain_error_sites (x : Ext) (n : Nat) (op : Op) (env : Env) (t : Ty) (v : V) (e : Err) (hop : op ≠ .C)
    (h : run x n op env t v = .err e) (hc : e.constraint = false) :
    e.path = [] ∧ ∃ q, Leads x ⟨op, env, t, v⟩ [] q ∧ q.run x n = .err ⟨false, []⟩ ∧ PlainSite q := by
  rcases (verdict_aux x n op env t v e hop h).2 with hc' | hr
  · rw [hc] at hc'; cases hc'
  · exact hr

/-- The path never names an element that is fine: a position blamed by `FailsHere` is rejected when
    its sub-schema is run on its sub-value alone - with the empty path - and so is every object
    blamed by `NamesProperty`, with exactly the property's name as path. (Immediate from the
    definitions; stated so that the reader sees it.) -/
theorem C17_blamed_is_rejected (x : Ext) (n : Nat) (q : Pos) :
    (FailsHere x n q → ∃ c, run x n q.op q.env q.ty q.val = .err ⟨c, []⟩) ∧
    (∀ name, NamesProperty x n q name → run x n q.op q.env q.ty q.val = .err ⟨true, [name]⟩) :=
  ⟨fun h => h.1, fun _ h => h.1⟩

/-- The blamed level is never a mere pass-through: a reference or a scope is never the position
    `FailsHere` holds of (their error is always their target's). -/
theorem C17_blamed_not_passthrough (x : Ext) (n : Nat) (q : Pos) (h : FailsHere x n q) :
    (∀ id, q.ty ≠ .ref id) ∧ (∀ objs root, q.ty ≠ .scope objs root) := by
  obtain ⟨op, env, t, v⟩ := q
  obtain ⟨⟨c, hc⟩, hfree⟩ := h
  constructor
  · intro id ht
    simp only at ht
    subst ht
    cases n with
    | zero => simp [Pos.run, run] at hc
    | succ n =>
      simp only [Pos.run, run] at hc
      split at hc
      · simp at hc
      · rename_i o hl
        exact hfree _ (.ref hl) n _ hc
  · intro objs root ht
    simp only at ht
    subst ht
    cases n with
    | zero => simp [Pos.run, run] at hc
    | succ n =>
      simp only [Pos.run, run] at hc
      split at hc
      · simp at hc
      · rename_i o hl
        exact hfree _ (.scope hl) n _ hc

theorem errOf_eq_some {α} {o : Out α} {e : Err} (h : errOf o = some e) : o = .err e := by
  cases o <;> simp [errOf] at h
  rw [h]

/-! non-vacuity: scope -> object -> list of (referenced) objects -> map -> bounded int, one planted
    fault: the second item's `m["k"]` is 50, above the maximum 10 -/

def c17X : Ext := ⟨fun _ => none, fun _ => "", fun _ => true, fun _ _ => true⟩

def c17Root : Ty := .obj "Root" [("items", .mk (.list (.ref "Item") none none) true [] [] [] none false)]

def c17Objs : Env :=
  [("Root", c17Root),
   ("Item", .obj "Item"
      [("m", .mk (.map (.str none none none) (.int (some 0) (some 10) none) none none) true [] [] [] none false)])]

def c17Schema : Ty := .scope c17Objs "Root"

def c17Item (n : Int) : V := .map .strAny [(.str "m", .map .strAny [(.str "k", .int .int n)])]

def c17Value : V := .map .strAny [(.str "items", .list [c17Item 5, c17Item 50, c17Item 7])]

/-- the model's answer on the planted fault -/
theorem c17_example_run :
    run c17X 10 .U [] c17Schema c17Value = .err ⟨true, ["items", "[1]", "m", "[k]"]⟩ :=
  errOf_eq_some (by decide)

/-- ... and the witness of `C17_path_leads_U` for it, exhibited: the path leads through the scope,
    the property `items`, index 1, the reference `Item`, the property `m` and the key `k` to the
    integer schema with bounds [0, 10] on the value 50, which that schema rejects on its own. -/
example : Leads c17X ⟨.U, [], c17Schema, c17Value⟩ ["items", "[1]", "m", "[k]"]
      ⟨.U, c17Objs, .int (some 0) (some 10) none, .int .int 50⟩ ∧
    FailsHere c17X 10 ⟨.U, c17Objs, .int (some 0) (some 10) none, .int .int 50⟩ := by
  refine ⟨?_, ⟨true, errOf_eq_some (by decide)⟩, by intro r hs; cases hs⟩
  have l : Leads c17X ⟨.U, [], c17Schema, c17Value⟩
      ([] ++ (["items"] ++ ([idxSeg 1] ++ ([] ++ (["m"] ++ ([valSeg (.str "k")] ++ []))))))
      ⟨.U, c17Objs, .int (some 0) (some 10) none, .int .int 50⟩ :=
    .step (.scope (o := c17Root) rfl) <|
    .step (.property (m := [("items", .list [c17Item 5, c17Item 50, c17Item 7])]) (d := .list _)
      (p := .mk (.list (.ref "Item") none none) true [] [] [] none false) rfl (by simp) rfl) <|
    .step (.listItem (xs := [c17Item 5, c17Item 50, c17Item 7]) (i := 1) (a := c17Item 50) rfl rfl (Or.inl rfl)) <|
    .step (.ref (o := .obj "Item" _) rfl) <|
    .step (.property (m := [("m", .map .strAny [(.str "k", .int .int 50)])]) (d := .map .strAny _)
      (p := .mk (.map (.str none none none) (.int (some 0) (some 10) none) none none) true [] [] [] none false)
      rfl (by simp) rfl) <|
    .step (.mapValue (sh := .strAny) (kvs := [(.str "k", .int .int 50)]) (k := .str "k") (a := .int .int 50)
      rfl (by simp) (Or.inl rfl)) .here
  have hp : ([] ++ (["items"] ++ ([idxSeg 1] ++ ([] ++ (["m"] ++ ([valSeg (.str "k")] ++ [])))))) =
      ["items", "[1]", "m", "[k]"] := by decide
  rw [hp] at l
  exact l

/-- the theorem applied to the example -/
example :
    (∃ q, Leads c17X ⟨.U, [], c17Schema, c17Value⟩ ["items", "[1]", "m", "[k]"] q ∧ FailsHere c17X 10 q) ∨
    (∃ pre name q, ["items", "[1]", "m", "[k]"] = pre ++ [name] ∧ Leads c17X ⟨.U, [], c17Schema, c17Value⟩ pre q ∧
      NamesProperty c17X 10 q name) :=
  (C17_path_leads_U _ _ _ _ _ _ c17_example_run).2

/-! non-vacuity of the second disjunct: the required property `items` is ABSENT; the error names
    it, and what the path leads to (all but its last segment: through the scope) is the object -/

def c17Empty : V := .map .strAny []

theorem c17_example_missing : run c17X 10 .U [] c17Schema c17Empty = .err ⟨true, ["items"]⟩ :=
  errOf_eq_some (by decide)

example : Leads c17X ⟨.U, [], c17Schema, c17Empty⟩ [] ⟨.U, c17Objs, c17Root, c17Empty⟩ ∧
    NamesProperty c17X 10 ⟨.U, c17Objs, c17Root, c17Empty⟩ "items" := by
  refine ⟨.step (segs := []) (path := []) (.scope rfl) .here, errOf_eq_some (by decide), "Root", _,
    .mk (.list (.ref "Item") none none) true [] [] [] none false, [], rfl, by simp, rfl, Or.inl ?_⟩
  intro hr
  simp [RuleHolds, hasKey, lookupS, PropT.required] at hr

/-! ### data-mode ValidateCompatibility: the path is truncated at the first object property -/

/-- C17 for data-mode ValidateCompatibility, PARTIAL - and the missing part is false of the model.
    Proved: every rejection is a constraint error unless its path is empty, and its path leads
    (`Leads`, same segments) to a position that (a) fails on its own, or (b) is an object naming
    its disabled property in the last segment, or (c) is the VALUE OF AN OBJECT PROPERTY THAT IS
    REJECTED SOMEWHERE INSIDE (`RejectedBelow`): `PropertySchema.ValidateCompatibility` (and likewise
    the any-schema, the one-of and the non-map object fallback) put the sub-schema's error into
    the MESSAGE of a fresh `ConstraintError`, so the segments below the first property are lost.
    Missing for full strength: in case (c) the path does not reach the offending element. The
    example below shows that this is how the model (and the code it mirrors) behaves. -/
theorem C17_path_leads_C_partial (x : Ext) (n : Nat) (env : Env) (t : Ty) (v : V) (e : Err)
    (h : run x n .C env t v = .err e) :
    (e.constraint = true ∨ e.path = []) ∧
    ((∃ q, Leads x ⟨.C, env, t, v⟩ e.path q ∧ FailsHere x n q) ∨
     (∃ pre name q, e.path = pre ++ [name] ∧ Leads x ⟨.C, env, t, v⟩ pre q ∧ NamesProperty x n q name) ∨
     (∃ q, Leads x ⟨.C, env, t, v⟩ e.path q ∧ RejectedBelow x n q)) := by
  obtain ⟨hl, hc⟩ := located_C x n env t v e h
  refine ⟨hc, ?_⟩
  rcases hl with (h1 | h2) | h3
  · exact Or.inl h1
  · exact Or.inr (Or.inl h2)
  · exact Or.inr (Or.inr h3)

/-! the truncation is real: the same native value against the same schema - Validate reports the
    full path to the offending integer, data-mode compatibility only the outer property -/

def c17Nested : Ty :=
  .obj "A" [("outer", .mk (.obj "B" [("inner", .mk (.int (some 0) (some 10) none) true [] [] [] none false)])
    true [] [] [] none false)]

def c17NestedVal : V := .map .strAny [(.str "outer", .map .strAny [(.str "inner", .int .int64 50)])]

example : run c17X 10 .V [] c17Nested c17NestedVal = .err ⟨true, ["outer", "inner"]⟩ ∧
    run c17X 10 .C [] c17Nested c17NestedVal = .err ⟨true, ["outer"]⟩ :=
  ⟨errOf_eq_some (by decide), errOf_eq_some (by decide)⟩

/- non-vacuity of the hypotheses of `C17_path_leads_S` (Serialize of the native value above) and of
   `C17_plain_error_sites` (a plain error: a one-of unserializing nil) -/
example : run c17X 10 .S [] c17Nested c17NestedVal = .err ⟨true, ["outer", "inner"]⟩ := errOf_eq_some (by decide)
example : run c17X 10 .U [] (.oneOf false "kind" false []) .nil = .err ⟨false, []⟩ := errOf_eq_some (by decide)

#print axioms C17_path_leads
#print axioms C17_path_leads_U
#print axioms C17_path_leads_V
#print axioms C17_path_leads_S
#print axioms C17_plain_error_sites
#print axioms C17_path_leads_C_partial
#print axioms C17_blamed_is_rejected
#print axioms C17_blamed_not_passthrough
#print axioms c17_example_run
#print axioms c17_example_missing

end Arca
