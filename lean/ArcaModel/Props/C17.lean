import ArcaModel.Props.C03
/-
  C17  A rejection names the offending element: the error is a constraint error whose path is the
       sequence of property names, list indices and map keys from the root to the element.

  The theorems are compositional: each says how one schema level prefixes exactly its own segment to
  the path reported by the level below when that level holds the only fault. Chaining them along the
  position of the offending element gives the full path.
-/
namespace Arca
open Out

/-- the error an operation returned, if any -/
def errOf {α} : Out α → Option Err
  | .err e => some e
  | _ => none

/-! ### leaves: a rejection by a scalar schema is a constraint error with the empty path -/

def Ty.isScalar : Ty → Bool
  | .int _ _ _ | .float _ _ _ | .str _ _ _ | .bool | .pattern | .enumInt _ _ | .enumStr _ => true
  | _ => false

theorem rewrapC_err {α} {a : Out α} {e : Err} (h : rewrapC a = .err e) : e = ⟨true, []⟩ := by
  cases a <;> simp [rewrapC, cerr] at h
  exact h.symm

theorem bind_eq_err {α β} {a : Out α} {f : α → Out β} {e : Err} (h : a.bind f = .err e) :
    a = .err e ∨ ∃ x, a = .ok x ∧ f x = .err e := by
  cases a <;> simp_all [Out.bind]

theorem checkInt_err {a b : Option Int} {n : Int} {e : Err} (h : checkInt a b n = .err e) : e = ⟨true, []⟩ := by
  unfold checkInt at h
  (repeat' split at h) <;> simp [cerr] at h <;> exact h.symm

theorem checkLen_err {a b : Option Int} {n : Nat} {e : Err} (h : checkLen a b n = .err e) : e = ⟨true, []⟩ := by
  unfold checkLen at h
  (repeat' split at h) <;> simp [cerr] at h <;> exact h.symm

theorem checkFloat_err {a b : Option Nat} {n : Nat} {e : Err} (h : checkFloat a b n = .err e) : e = ⟨true, []⟩ := by
  unfold checkFloat at h
  (repeat' split at h) <;> simp [cerr] at h <;> exact h.symm

theorem checkStr_err {x : Ext} {a b : Option Int} {p : Option String} {s : String} {e : Err}
    (h : checkStr x a b p s = .err e) : e = ⟨true, []⟩ := by
  unfold checkStr at h
  cases hl : checkLen a b s.utf8ByteSize with
  | ok u =>
    rw [hl] at h
    simp only at h
    (repeat' split at h) <;> simp [cerr] at h <;> exact h.symm
  | err e' =>
    rw [hl] at h
    simp at h
    subst h
    exact checkLen_err hl
  | panic => rw [hl] at h; simp at h
  | fuel => rw [hl] at h; simp at h

/-- Every rejection of a raw value by a scalar schema's Unserialize - wrong type, unparsable string,
    out of bounds, length, pattern, not in the enum - is a constraint error with the empty path. -/
theorem C17_leaf (x : Ext) (fuel : Nat) (env : Env) (t : Ty) (v : V) (e : Err) (ht : t.isScalar = true)
    (h : run x (fuel + 1) .U env t v = .err e) : e = ⟨true, []⟩ := by
  cases t <;> simp [Ty.isScalar] at ht <;> simp only [run] at h
  · unfold runInt at h
    rcases bind_eq_err h with h1 | ⟨n, _, h2⟩
    · exact rewrapC_err h1
    · rcases bind_eq_err h2 with h3 | ⟨_, _, h4⟩
      · exact checkInt_err h3
      · simp at h4
  · unfold runFloat at h
    rcases bind_eq_err h with h1 | ⟨n, _, h2⟩
    · exact rewrapC_err h1
    · rcases bind_eq_err h2 with h3 | ⟨_, _, h4⟩
      · exact checkFloat_err h3
      · simp at h4
  · unfold runStr at h
    rcases bind_eq_err h with h1 | ⟨n, _, h2⟩
    · exact rewrapC_err h1
    · rcases bind_eq_err h2 with h3 | ⟨_, _, h4⟩
      · exact checkStr_err h3
      · simp at h4
  · unfold runBool at h
    rcases bind_eq_err h with h1 | ⟨n, _, h2⟩
    · unfold boolInputMapper at h1
      split at h1
      · simp at h1
      · split at h1 <;> simp [cerr] at h1
        exact h1.symm
      · simp only at h1
        (repeat' split at h1) <;> simp [cerr] at h1
        exact h1.symm
      · simp [cerr] at h1
        exact h1.symm
    · simp at h2
  · unfold runPattern at h
    rcases bind_eq_err h with h1 | ⟨n, _, h2⟩
    · exact rewrapC_err h1
    · split at h2 <;> simp [cerr] at h2
      exact h2.symm
  · unfold runEnumInt at h
    rcases bind_eq_err h with h1 | ⟨n, _, h2⟩
    · exact rewrapC_err h1
    · split at h2 <;> simp [cerr] at h2
      exact h2.symm
  · unfold runEnumStr at h
    rcases bind_eq_err h with h1 | ⟨n, _, h2⟩
    · exact rewrapC_err h1
    · split at h2 <;> simp [cerr] at h2
      exact h2.symm

/-! ### lists -/

theorem allIdx_of_forall2_addSeg {g : V → Out V} {n : Nat} {xs ys : List V}
    (h : Forall2 (fun e y => g e = .ok y) xs ys) : AllIdx (fun i e => (g e).addSeg (idxSeg i)) n xs ys :=
  allIdx_addSeg_iff.mpr h

/-- If the element at index `i` is the only one the item schema rejects (all earlier ones are
    accepted), the list reports the item's error with `[i]` prefixed to its path - and as a
    constraint error. -/
theorem C17_list_item (x : Ext) (fuel : Nat) (env : Env) (item : Ty) (min max : Option Int)
    (v : V) (pre : List V) (bad : V) (post pre' : List V) (e : Err)
    (hv : v.sliceElems? = some (pre ++ bad :: post))
    (hlen : LenOK min max (pre ++ bad :: post).length)
    (hpre : Forall2 (fun a y => run x fuel .U env item a = .ok y) pre pre')
    (hbad : run x fuel .U env item bad = .err e) :
    run x (fuel + 1) .U env (.list item min max) v = .err ⟨true, idxSeg pre.length :: e.path⟩ := by
  simp only [run, runList, hv, (checkLen_ok_iff _ _ _).mpr hlen, Out.bind]
  have := forIdx_err_first (f := fun i a => (run x fuel .U env item a).addSeg (idxSeg i)) (n := 0)
    (post := post) (allIdx_of_forall2_addSeg hpre) (x := bad) (e := ⟨true, idxSeg pre.length :: e.path⟩)
    (by simp [hbad, addSeg])
  rw [this]

/-! ### maps -/

/-- If the value under key `k` is the only fault (all earlier entries are accepted and the key
    itself is), the map reports the value's error with `[k]` prefixed. -/
theorem C17_map_value (x : Ext) (fuel : Nat) (env : Env) (kt vt : Ty) (min max : Option Int) (sh : MapShape)
    (pre : List (V × V)) (k bad : V) (post pre' : List (V × V)) (k' : V) (e : Err)
    (hlen : LenOK min max (pre ++ (k, bad) :: post).length)
    (hpre : Forall2 (fun kv kv' => run x fuel .U env kt kv.1 = .ok kv'.1 ∧ run x fuel .U env vt kv.2 = .ok kv'.2) pre pre')
    (hk : run x fuel .U env kt k = .ok k')
    (hbad : run x fuel .U env vt bad = .err e) :
    run x (fuel + 1) .U env (.map kt vt min max) (.map sh (pre ++ (k, bad) :: post)) =
      .err ⟨true, valSeg k :: e.path⟩ := by
  simp only [run, runMap, V.mapEntries?, (checkLen_ok_iff _ _ _).mpr hlen, Out.bind]
  have := forKV_err_first (f := entryKV (run x fuel) .U env kt vt) (post := post)
    (allKV_entry_iff.mpr hpre) (k := k) (v := bad) (e := ⟨true, valSeg k :: e.path⟩)
    (by simp [entryKV, hk, hbad, addSeg, Out.bind])
  rw [this]

/-- If the key `k` itself is the only fault, the map reports the key's error with `{k}` prefixed. -/
theorem C17_map_key (x : Ext) (fuel : Nat) (env : Env) (kt vt : Ty) (min max : Option Int) (sh : MapShape)
    (pre : List (V × V)) (k val : V) (post pre' : List (V × V)) (e : Err)
    (hlen : LenOK min max (pre ++ (k, val) :: post).length)
    (hpre : Forall2 (fun kv kv' => run x fuel .U env kt kv.1 = .ok kv'.1 ∧ run x fuel .U env vt kv.2 = .ok kv'.2) pre pre')
    (hbad : run x fuel .U env kt k = .err e) :
    run x (fuel + 1) .U env (.map kt vt min max) (.map sh (pre ++ (k, val) :: post)) =
      .err ⟨true, keySeg k :: e.path⟩ := by
  simp only [run, runMap, V.mapEntries?, (checkLen_ok_iff _ _ _).mpr hlen, Out.bind]
  have := forKV_err_first (f := entryKV (run x fuel) .U env kt vt) (post := post)
    (allKV_entry_iff.mpr hpre) (k := k) (v := val) (e := ⟨true, keySeg k :: e.path⟩)
    (by simp [entryKV, hbad, addSeg, Out.bind])
  rw [this]

/-! ### objects -/

/-- If the value of the present property `id` is the only fault - every EARLIER entry of the
    (defaulted) map is accepted by its property's type - the object reports the value's error
    with the property name prefixed. -/
theorem C17_obj_property (x : Ext) (fuel : Nat) (env : Env) (oid : String) (props : List (String × PropT))
    (sh : MapShape) (kvs : List (V × V)) (skvs pre post pre' : List (String × V)) (id : String) (p : PropT) (d : V) (e : Err)
    (hs : strKeys? kvs = some skvs) (hdecl : ∀ kv, kv ∈ skvs → hasKey kv.1 props = true)
    (hdef : applyDefaults props skvs = .ok (pre ++ (id, d) :: post))
    (hl : lookupS id props = some p) (hdis : p.disabled = false) (hbad : run x fuel .U env p.ty d = .err e)
    (hpre : AllSV (objEntryU (run x fuel) env props) pre pre') :
    run x (fuel + 1) .U env (.obj oid props) (.map sh kvs) = .err ⟨true, id :: e.path⟩ := by
  have hany : (skvs.any fun kv => !hasKey kv.1 props) = false := by
    cases h : skvs.any fun kv => !hasKey kv.1 props with
    | false => rfl
    | true =>
      obtain ⟨kv, hkv, hk⟩ := List.any_eq_true.mp h
      rw [hdecl kv hkv] at hk
      simp at hk
  simp only [run, runObj, objRaw, V.mapEntries?, hs, hany, hdef, Out.bind, Bool.false_eq_true, if_false]
  rw [forSV_err_first hpre (e := ⟨true, id :: e.path⟩) (by simp [objEntryU, hl, hdis, hbad, addSeg])]

theorem interdeps_go_cons (isSet : String → Bool) (id : String) (p : PropT) (rest : List (String × PropT)) :
    interdeps.go isSet ((id, p) :: rest) =
      if (interdeps.go isSet [(id, p)]).isOk then interdeps.go isSet rest else .cerrAt [id] := by
  simp only [interdeps.go]
  split <;> split <;> simp_all [cerrAt, Out.isOk]

theorem interdeps_go_single_iff (isSet : String → Bool) (id : String) (p : PropT) :
    (interdeps.go isSet [(id, p)]).isOk = true ↔ RuleHolds isSet id p := by
  have : (interdeps.go isSet [(id, p)]).isOk = true ↔ interdeps.go isSet [(id, p)] = .ok () := by
    cases interdeps.go isSet [(id, p)] <;> simp [Out.isOk]
  rw [this, interdeps_go_ok_iff]
  constructor
  · intro h; exact h (id, p) (by simp)
  · intro h np hnp; simp at hnp; subst hnp; exact h

/-- A missing required property (more generally: a property whose presence rule is the only one
    violated) is reported as a constraint error whose path is that property's name. -/
theorem C17_presence_rule (isSet : String → Bool) (id : String) (p : PropT) :
    ∀ (props : List (String × PropT)), (id, p) ∈ props → (props.map Prod.fst).Nodup →
      ¬ RuleHolds isSet id p → (∀ np, np ∈ props → np.1 ≠ id → RuleHolds isSet np.1 np.2) →
      interdeps props isSet = .err ⟨true, [id]⟩ := by
  intro props
  unfold interdeps
  induction props with
  | nil => intro hm; simp at hm
  | cons np rest ih =>
    obtain ⟨id0, p0⟩ := np
    intro hm hnd hbad hothers
    have hnd' : (rest.map Prod.fst).Nodup := by
      simp only [List.map_cons, List.nodup_cons] at hnd; exact hnd.2
    rw [interdeps_go_cons]
    rcases List.mem_cons.mp hm with heq | hm'
    · cases heq
      have : ¬ (interdeps.go isSet [(id, p)]).isOk = true := fun h => hbad ((interdeps_go_single_iff _ _ _).mp h)
      simp [this, cerrAt]
    · have hne : id0 ≠ id := by
        intro he; subst he
        simp only [List.map_cons, List.nodup_cons] at hnd
        exact hnd.1 (List.mem_map.mpr ⟨(id0, p), hm', rfl⟩)
      have h0 : RuleHolds isSet id0 p0 := hothers (id0, p0) List.mem_cons_self hne
      rw [if_pos ((interdeps_go_single_iff _ _ _).mpr h0)]
      exact ih hm' hnd' hbad (fun np hnp hne' => hothers np (List.mem_cons_of_mem _ hnp) hne')

/-- An undeclared key is reported as a constraint error at the enclosing object (empty relative
    path; the key is named in the message). -/
theorem C17_obj_undeclared_key (x : Ext) (fuel : Nat) (env : Env) (oid : String) (props : List (String × PropT))
    (sh : MapShape) (kvs : List (V × V)) (skvs : List (String × V)) (k : String) (v : V)
    (hs : strKeys? kvs = some skvs) (hk : (k, v) ∈ skvs) (hund : hasKey k props = false) :
    run x (fuel + 1) .U env (.obj oid props) (.map sh kvs) = .err ⟨true, []⟩ := by
  have hany : (skvs.any fun kv => !hasKey kv.1 props) = true :=
    List.any_eq_true.mpr ⟨(k, v), hk, by simp [hund]⟩
  simp [run, runObj, objRaw, V.mapEntries?, hs, hany, Out.bind, cerr]

/-! ### references, scopes and one-of add no segment -/

theorem C17_ref_passthrough (x : Ext) (fuel : Nat) (op : Op) (env : Env) (id : String) (o : Ty) (v : V)
    (hl : lookupS id env = some o) : run x (fuel + 1) op env (.ref id) v = run x fuel op env o v := by
  simp [run, hl]

theorem C17_scope_passthrough (x : Ext) (fuel : Nat) (op : Op) (env : Env) (objs : List (String × Ty)) (root : String)
    (o : Ty) (v : V) (hl : lookupS root objs = some o) :
    run x (fuel + 1) op env (.scope objs root) v = run x fuel op objs o v := by
  simp [run, hl]

/-- The selected member's rejection is the one-of's rejection, unchanged (the one-of level is not a
    property name, index or key). -/
theorem C17_oneof_passthrough (x : Ext) (fuel : Nat) (env : Env) (intKey : Bool) (disc : String) (inlined : Bool)
    (members : List (Key × Ty)) (sh : MapShape) (kvs : List (V × V))
    (dk d : V) (key : Key) (m : List (String × V)) (mt : Ty) (e : Err)
    (hsh : sh.key = .any ∨ sh.key = .string)
    (hfind : kvs.find? (isDiscKey disc) = some (dk, d))
    (hkey : DiscDenotes x intKey d key) (hm : strKeys? kvs = some m) (hmt : lookupK key members = some mt)
    (hbad : run x fuel .U env mt (toStrAny (if inlined then m else eraseKey disc m)) = .err e) :
    run x (fuel + 1) .U env (.oneOf intKey disc inlined members) (.map sh kvs) = .err e := by
  have hsh' : (sh.key == KeyTy.any || sh.key == KeyTy.string) = true := by
    rcases hsh with h | h <;> simp [h]
  have ht := (typedDisc_ok_iff x intKey d key).mpr hkey
  simp only [run, runOneOf, oneOfUnser, V.mapEntries?, hsh', Bool.not_true, Bool.false_eq_true, if_false, hfind]
  rw [ht]
  simp only [Out.bind, hm, hmt]
  rw [hbad]

#print axioms C17_leaf
#print axioms C17_list_item
#print axioms C17_map_value
#print axioms C17_map_key
#print axioms C17_obj_property
#print axioms C17_presence_rule
#print axioms C17_obj_undeclared_key
#print axioms C17_oneof_passthrough

end Arca
