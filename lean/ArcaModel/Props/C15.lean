import ArcaModel.Model.Compat
import ArcaModel.Lemmas.Out
import ArcaModel.Model.WF
import ArcaModel.Lemmas.CompatHalts
/-
  C15  Compatibility checking is kind-sound, reflexive and independent of iteration order.

  `compatS fuel es eo s o`: may a producer with schema `o` feed a consumer expecting `s`?
  Termination on recursive schemas is NOT claimed: the implementation recurses through
  references without a cycle guard (known finding); the model then answers `fuel`.
-/
namespace Arca
open Out

/-! ### kind soundness: one theorem per rejection rule -/

/-- integer consumers reject every producer that is neither an integer nor an integer enum -/
theorem C15_int_rejects_other_kinds (n : Nat) (es eo : Env) (a b : Option Int) (u : Option Units) (o : Ty)
    (h1 : ∀ a' b' u', o ≠ .int a' b' u') (h2 : ∀ vs u', o ≠ .enumInt vs u') :
    compatS (n + 1) es eo (.int a b u) o = .cerr := by
  cases o <;> simp_all [compatS]

theorem C15_str_rejects_other_kinds (n : Nat) (es eo : Env) (a b : Option Int) (p : Option String) (o : Ty)
    (h1 : ∀ a' b' p', o ≠ .str a' b' p') (h2 : ∀ vs, o ≠ .enumStr vs) :
    compatS (n + 1) es eo (.str a b p) o = .cerr := by
  cases o <;> simp_all [compatS]

theorem C15_float_rejects_other_kinds (n : Nat) (es eo : Env) (a b : Option Nat) (u : Option Units) (o : Ty)
    (h1 : ∀ a' b' u', o ≠ .float a' b' u') : compatS (n + 1) es eo (.float a b u) o = .cerr := by
  cases o <;> simp_all [compatS]

theorem C15_bool_rejects_other_kinds (n : Nat) (es eo : Env) (o : Ty) (h : o ≠ .bool) :
    compatS (n + 1) es eo .bool o = .cerr := by
  cases o <;> simp_all [compatS]

theorem C15_pattern_rejects_other_kinds (n : Nat) (es eo : Env) (o : Ty) (h : o ≠ .pattern) :
    compatS (n + 1) es eo .pattern o = .cerr := by
  cases o <;> simp_all [compatS]

theorem C15_list_rejects_other_kinds (n : Nat) (es eo : Env) (item : Ty) (a b : Option Int) (o : Ty)
    (h : ∀ i a' b', o ≠ .list i a' b') : compatS (n + 1) es eo (.list item a b) o = .cerr := by
  cases o <;> simp_all [compatS]

theorem C15_map_rejects_other_kinds (n : Nat) (es eo : Env) (k v : Ty) (a b : Option Int) (o : Ty)
    (h : ∀ k' v' a' b', o ≠ .map k' v' a' b') : compatS (n + 1) es eo (.map k v a b) o = .cerr := by
  cases o <;> first | exact absurd rfl (h _ _ _ _) | simp [compatS]

/-- an enum consumer rejects a producer of the other enum kind and every non-enum -/
theorem C15_enumInt_rejects_other_kinds (n : Nat) (es eo : Env) (vs : List Int) (u : Option Units) (o : Ty)
    (h : ∀ vs' u', o ≠ .enumInt vs' u') : compatS (n + 1) es eo (.enumInt vs u) o = .cerr := by
  cases o <;> simp_all [compatS]

theorem C15_enumStr_rejects_other_kinds (n : Nat) (es eo : Env) (vs : List String) (o : Ty)
    (h : ∀ vs', o ≠ .enumStr vs') : compatS (n + 1) es eo (.enumStr vs) o = .cerr := by
  cases o <;> simp_all [compatS]

/-- ranges that cannot overlap are rejected (integers; the same test is used for string lengths,
    list and map sizes) -/
theorem C15_int_disjoint_ranges (n : Nat) (es eo : Env) (smin smax omin omax : Option Int) (u u' : Option Units)
    (h : rangeDisjoint smin smax omin omax = true) :
    compatS (n + 1) es eo (.int smin smax u) (.int omin omax u') = .cerr := by
  simp [compatS, h]

theorem C15_str_disjoint_ranges (n : Nat) (es eo : Env) (smin smax omin omax : Option Int) (p p' : Option String)
    (h : rangeDisjoint smin smax omin omax = true) :
    compatS (n + 1) es eo (.str smin smax p) (.str omin omax p') = .cerr := by
  simp [compatS, h]

theorem C15_list_disjoint_ranges (n : Nat) (es eo : Env) (i i' : Ty) (smin smax omin omax : Option Int)
    (h : rangeDisjoint smin smax omin omax = true) :
    compatS (n + 1) es eo (.list i smin smax) (.list i' omin omax) = .cerr := by
  simp [compatS, h]

theorem C15_float_disjoint_ranges (n : Nat) (es eo : Env) (smin smax omin omax : Option Nat) (u u' : Option Units)
    (h : fRangeDisjoint smin smax omin omax = true) :
    compatS (n + 1) es eo (.float smin smax u) (.float omin omax u') = .cerr := by
  simp [compatS, h]

/-- `rangeDisjoint` is exactly "the producer's declared minimum lies above the consumer's maximum
    or its maximum below the consumer's minimum" -/
theorem rangeDisjoint_iff (smin smax omin omax : Option Int) :
    rangeDisjoint smin smax omin omax = true ↔
      (∃ sm om, smax = some sm ∧ omin = some om ∧ om > sm) ∨ (∃ sm om, smin = some sm ∧ omax = some om ∧ om < sm) := by
  unfold rangeDisjoint
  cases smin <;> cases smax <;> cases omin <;> cases omax <;> simp

/-- incompatible element types make the lists incompatible -/
theorem C15_list_item_incompatible (n : Nat) (es eo : Env) (i i' : Ty) (a b a' b' : Option Int)
    (h : compatS n es eo i i' ≠ .ok ()) : compatS (n + 1) es eo (.list i a b) (.list i' a' b') ≠ .ok () := by
  simp only [compatS]
  split
  · simp [cerr]
  · exact h

theorem C15_map_key_or_value_incompatible (n : Nat) (es eo : Env) (k v k' v' : Ty) (a b a' b' : Option Int)
    (h : compatS n es eo k k' ≠ .ok () ∨ compatS n es eo v v' ≠ .ok ()) :
    compatS (n + 1) es eo (.map k v a b) (.map k' v' a' b') ≠ .ok () := by
  simp only [compatS]
  intro hok
  obtain ⟨_, h1, h2⟩ := bind_eq_ok hok
  obtain ⟨_, h3, _⟩ := bind_eq_ok h2
  rcases h with h | h
  · exact h (rewrapC_eq_ok.mp h1)
  · exact h (rewrapC_eq_ok.mp h3)

/-- an enum offering a value outside the consumer's set is rejected -/
theorem C15_enumInt_extra_value (n : Nat) (es eo : Env) (vs ovs : List Int) (u u' : Option Units) (x : Int)
    (hx : x ∈ ovs) (hn : x ∉ vs) : compatS (n + 1) es eo (.enumInt vs u) (.enumInt ovs u') = .cerr := by
  have : ovs.all vs.contains = false := by
    cases h : ovs.all vs.contains with
    | false => rfl
    | true =>
      have := List.all_eq_true.mp h x hx
      simp at this
      exact absurd this hn
  simp [compatS, this]

theorem C15_enumStr_extra_value (n : Nat) (es eo : Env) (vs ovs : List String) (x : String)
    (hx : x ∈ ovs) (hn : x ∉ vs) : compatS (n + 1) es eo (.enumStr vs) (.enumStr ovs) = .cerr := by
  have : ovs.all vs.contains = false := by
    cases h : ovs.all vs.contains with
    | false => rfl
    | true =>
      have := List.all_eq_true.mp h x hx
      simp at this
      exact absurd this hn
  simp [compatS, this]

theorem forAll_ok_iff {α} {f : α → Out Unit} : ∀ {xs : List α}, forAll f xs = .ok () ↔ ∀ a, a ∈ xs → f a = .ok ()
  | [] => by simp [forAll]
  | a :: rest => by
    have ih := forAll_ok_iff (f := f) (xs := rest)
    simp only [forAll, List.mem_cons, forall_eq_or_imp]
    cases h : f a with
    | ok u => cases u; simp [ih]
    | err e => simp
    | panic => simp
    | fuel => simp

/-- an object producer (given directly, not through a reference) carrying a property the consumer
    does not declare is rejected -/
theorem C15_obj_undeclared_property (n : Nat) (es eo : Env) (sid : String) (sprops oprops : List (String × PropT))
    (k : String) (p : PropT) (hk : (k, p) ∈ oprops) (hund : lookupS k sprops = none) :
    compatS (n + 1) es eo (.obj sid sprops) (.obj sid oprops) ≠ .ok () := by
  simp only [compatS, objOf]
  intro hok
  simp only [bne_self_eq_false, Bool.false_eq_true, if_false] at hok
  obtain ⟨_, h1, _⟩ := bind_eq_ok hok
  have := forAll_ok_iff.mp h1 (k, p) hk
  simp [objPropCompat, hund, cerr] at this

/-- ... lacking a property the consumer requires is rejected -/
theorem C15_obj_missing_required (n : Nat) (es eo : Env) (sid : String) (sprops oprops : List (String × PropT))
    (k : String) (p : PropT) (hk : (k, p) ∈ sprops) (hreq : p.required = true) (hmiss : hasKey k oprops = false) :
    compatS (n + 1) es eo (.obj sid sprops) (.obj sid oprops) ≠ .ok () := by
  simp only [compatS, objOf]
  intro hok
  simp only [bne_self_eq_false, Bool.false_eq_true, if_false] at hok
  obtain ⟨_, _, h2⟩ := bind_eq_ok hok
  have : (sprops.any fun kp => kp.2.required && !hasKey kp.1 oprops) = true :=
    List.any_eq_true.mpr ⟨(k, p), hk, by simp [hreq, hmiss]⟩
  simp [this, cerr] at h2

/-- ... with a different ID is rejected -/
theorem C15_obj_different_id (n : Nat) (es eo : Env) (sid oid : String) (sprops oprops : List (String × PropT))
    (h : sid ≠ oid) : compatS (n + 1) es eo (.obj sid sprops) (.obj oid oprops) = .cerr := by
  simp [compatS, objOf, h]

/-- ... with a property whose type is incompatible is rejected -/
theorem C15_obj_property_incompatible (n : Nat) (es eo : Env) (sid : String) (sprops oprops : List (String × PropT))
    (k : String) (sp op : PropT) (hs : lookupS k sprops = some sp) (ho : (k, op) ∈ oprops)
    (h : compatS n es eo sp.ty op.ty ≠ .ok ()) :
    compatS (n + 1) es eo (.obj sid sprops) (.obj sid oprops) ≠ .ok () := by
  simp only [compatS, objOf]
  intro hok
  simp only [bne_self_eq_false, Bool.false_eq_true, if_false] at hok
  obtain ⟨_, h1, _⟩ := bind_eq_ok hok
  have := forAll_ok_iff.mp h1 (k, op) ho
  simp only [objPropCompat, hs] at this
  cases hc : compatS n es eo sp.ty op.ty with
  | ok u => cases u; exact h hc
  | err e => simp [hc, addSeg] at this
  | panic => simp [hc, addSeg] at this
  | fuel => simp [hc, addSeg] at this

/-- a one-of with another discriminator field, another key kind, or lacking one of the consumer's
    members is rejected; a non-one-of producer is rejected -/
theorem C15_oneof_different_discriminator (n : Nat) (es eo : Env) (ik : Bool) (d d' : String) (inl inl' : Bool)
    (ms ms' : List (Key × Ty)) (h : d ≠ d') :
    compatS (n + 1) es eo (.oneOf ik d inl ms) (.oneOf ik d' inl' ms') = .cerr := by
  simp [compatS, h]

theorem C15_oneof_different_key_kind (n : Nat) (es eo : Env) (ik ik' : Bool) (d d' : String) (inl inl' : Bool)
    (ms ms' : List (Key × Ty)) (h : ik ≠ ik') :
    compatS (n + 1) es eo (.oneOf ik d inl ms) (.oneOf ik' d' inl' ms') = .cerr := by
  simp [compatS, h]

theorem C15_oneof_missing_member (n : Nat) (es eo : Env) (ik : Bool) (d : String) (inl inl' : Bool)
    (ms ms' : List (Key × Ty)) (k : Key) (t : Ty) (hk : (k, t) ∈ ms) (hmiss : lookupK k ms' = none) :
    compatS (n + 1) es eo (.oneOf ik d inl ms) (.oneOf ik d inl' ms') ≠ .ok () := by
  simp only [compatS, bne_self_eq_false, Bool.false_eq_true, if_false]
  intro hok
  have := forAll_ok_iff.mp hok (k, t) hk
  simp [oneOfMemberCompat, hmiss, cerr] at this

theorem C15_oneof_rejects_other_kinds (n : Nat) (es eo : Env) (ik : Bool) (d : String) (inl : Bool)
    (ms : List (Key × Ty)) (o : Ty) (h : ∀ ik' d' inl' ms', o ≠ .oneOf ik' d' inl' ms') :
    compatS (n + 1) es eo (.oneOf ik d inl ms) o = .cerr := by
  cases o <;> first | exact absurd rfl (h _ _ _ _) | simp [compatS]

/-- an object consumer rejects every producer that does not denote an object -/
theorem C15_obj_rejects_other_kinds (n : Nat) (es eo : Env) (sid : String) (sprops : List (String × PropT)) (o : Ty)
    (h : objOf eo o = none) : compatS (n + 1) es eo (.obj sid sprops) o = .cerr := by
  simp [compatS, h]

/-! ### independence of iteration order -/

theorem lookupS_ne_none_of_mem {α} {k : String} {v : α} {m : List (String × α)} (h : (k, v) ∈ m) :
    lookupS k m ≠ none := by
  induction m with
  | nil => simp at h
  | cons p rest ih =>
    obtain ⟨k', v'⟩ := p
    simp only [lookupS]
    split
    · simp
    · rename_i hne
      rcases List.mem_cons.mp h with heq | hr
      · cases heq; simp at hne
      · exact ih hr

theorem contains_perm {α} [BEq α] [LawfulBEq α] {l l' : List α} (hp : l.Perm l') (a : α) :
    l.contains a = l'.contains a := by
  cases h1 : l.contains a <;> cases h2 : l'.contains a <;> try rfl
  · have : a ∈ l' := by simpa using h2
    have := hp.symm.subset this
    simp_all
  · have : a ∈ l := by simpa using h1
    have := hp.subset this
    simp_all

theorem all_perm {α} {p : α → Bool} {l l' : List α} (hp : l.Perm l') : l.all p = l'.all p := by
  cases h1 : l.all p <;> cases h2 : l'.all p <;> try rfl
  · have := List.all_eq_true.mp h2
    have : l.all p = true := List.all_eq_true.mpr (fun a ha => this a (hp.subset ha))
    simp_all
  · have := List.all_eq_true.mp h1
    have : l'.all p = true := List.all_eq_true.mpr (fun a ha => this a (hp.symm.subset ha))
    simp_all

/-- the verdict on two enums does not depend on the order of either value table -/
theorem C15_enumInt_order (n : Nat) (es eo : Env) (vs vs' ovs ovs' : List Int) (u u' : Option Units)
    (h1 : vs.Perm vs') (h2 : ovs.Perm ovs') :
    compatS (n + 1) es eo (.enumInt vs u) (.enumInt ovs u') = compatS (n + 1) es eo (.enumInt vs' u) (.enumInt ovs' u') := by
  have : ovs.all vs.contains = ovs'.all vs'.contains := by
    rw [all_perm h2]
    congr 1
    funext a
    exact contains_perm h1 a
  simp [compatS, this]

theorem C15_enumStr_order (n : Nat) (es eo : Env) (vs vs' ovs ovs' : List String)
    (h1 : vs.Perm vs') (h2 : ovs.Perm ovs') :
    compatS (n + 1) es eo (.enumStr vs) (.enumStr ovs) = compatS (n + 1) es eo (.enumStr vs') (.enumStr ovs') := by
  have : ovs.all vs.contains = ovs'.all vs'.contains := by
    rw [all_perm h2]
    congr 1
    funext a
    exact contains_perm h1 a
  simp [compatS, this]

theorem forAll_ok_perm {α} {f : α → Out Unit} {l l' : List α} (hp : l.Perm l') :
    (forAll f l = .ok () ↔ forAll f l' = .ok ()) := by
  rw [forAll_ok_iff, forAll_ok_iff]
  exact ⟨fun h a ha => h a (hp.symm.subset ha), fun h a ha => h a (hp.subset ha)⟩

/-- the VERDICT on two objects does not depend on the order in which the producer's properties
    are visited (which incompatible property is named may differ) -/
theorem C15_obj_property_order (n : Nat) (es eo : Env) (sid oid : String) (sprops oprops oprops' : List (String × PropT))
    (hp : oprops.Perm oprops') :
    (compatS (n + 1) es eo (.obj sid sprops) (.obj oid oprops) = .ok () ↔
     compatS (n + 1) es eo (.obj sid sprops) (.obj oid oprops') = .ok ()) := by
  have hk : ∀ k, hasKey k oprops = hasKey k oprops' := by
    intro k
    simp only [hasKey]
    cases h1 : lookupS k oprops <;> cases h2 : lookupS k oprops' <;> simp
    · exact absurd h1 (lookupS_ne_none_of_mem (hp.symm.subset (lookupS_mem h2)))
    · exact absurd h2 (lookupS_ne_none_of_mem (hp.subset (lookupS_mem h1)))
  simp only [compatS, objOf]
  split
  · simp [cerr]
  · have hany : (sprops.any fun kp => kp.2.required && !hasKey kp.1 oprops) =
        (sprops.any fun kp => kp.2.required && !hasKey kp.1 oprops') := by
      congr 1; funext kp; rw [hk]
    constructor
    · intro h
      obtain ⟨_, h1, h2⟩ := bind_eq_ok h
      rw [(forAll_ok_perm hp).mp h1]
      simpa [Out.bind, hany] using h2
    · intro h
      obtain ⟨_, h1, h2⟩ := bind_eq_ok h
      rw [(forAll_ok_perm hp).mpr h1]
      simpa [Out.bind, hany] using h2

/-! ### reflexivity -/

/-- Schemas (without references) whose declared ranges are non-empty and whose tables have
    distinct keys, with an explicit nesting bound. A schema with `min > max` denotes nothing and
    is indeed reported as incompatible with itself. -/
inductive SelfOK : Ty → Nat → Prop
  | int {a b u n} : rangeDisjoint a b a b = false → SelfOK (.int a b u) n
  | float {a b u n} : fRangeDisjoint a b a b = false → SelfOK (.float a b u) n
  | str {a b p n} : rangeDisjoint a b a b = false → SelfOK (.str a b p) n
  | bool {n} : SelfOK .bool n
  | pattern {n} : SelfOK .pattern n
  | enumInt {vs u n} : SelfOK (.enumInt vs u) n
  | enumStr {vs n} : SelfOK (.enumStr vs) n
  | any {n} : SelfOK .any n
  | list {item a b n} : rangeDisjoint a b a b = false → SelfOK item n → SelfOK (.list item a b) (n + 1)
  | map {k v a b n} : rangeDisjoint a b a b = false → SelfOK k n → SelfOK v n → SelfOK (.map k v a b) (n + 1)
  | obj {id props n} : (props.map Prod.fst).Nodup → (∀ np, np ∈ props → SelfOK np.2.ty n) → SelfOK (.obj id props) (n + 1)
  | oneOf {ik d inl ms n} : (ms.map Prod.fst).Nodup → (∀ m, m ∈ ms → SelfOK m.2 n) → SelfOK (.oneOf ik d inl ms) (n + 1)
  | scope {objs root o n} : lookupS root objs = some o → SelfOK o n → SelfOK (.scope objs root) (n + 1)

theorem lookupS_of_mem_nodup {α} {k : String} {v : α} {m : List (String × α)} (h : (k, v) ∈ m)
    (hnd : (m.map Prod.fst).Nodup) : lookupS k m = some v := by
  induction m with
  | nil => simp at h
  | cons p rest ih =>
    obtain ⟨k', v'⟩ := p
    simp only [List.map_cons, List.nodup_cons] at hnd
    simp only [lookupS]
    rcases List.mem_cons.mp h with heq | hr
    · cases heq; simp
    · split
      · rename_i heq
        have : k = k' := by simpa using heq
        subst this
        exact absurd (List.mem_map.mpr ⟨(k, v), hr, rfl⟩) hnd.1
      · exact ih hr hnd.2

theorem lookupK_of_mem_nodup {α} {k : Key} {v : α} {m : List (Key × α)} (h : (k, v) ∈ m)
    (hnd : (m.map Prod.fst).Nodup) : lookupK k m = some v := by
  induction m with
  | nil => simp at h
  | cons p rest ih =>
    obtain ⟨k', v'⟩ := p
    simp only [List.map_cons, List.nodup_cons] at hnd
    simp only [lookupK]
    rcases List.mem_cons.mp h with heq | hr
    · cases heq; simp
    · split
      · rename_i heq
        have : k = k' := by simpa using heq
        subst this
        exact absurd (List.mem_map.mpr ⟨(k, v), hr, rfl⟩) hnd.1
      · exact ih hr hnd.2

/-- Every such schema is compatible with itself (for whatever environments: it has no references). -/
theorem C15_reflexive_partial {t : Ty} {n : Nat} (h : SelfOK t n) : ∀ es eo, compatS (n + 1) es eo t t = .ok () := by
  induction h with
  | int hr => intro es eo; simp [compatS, hr]
  | float hr => intro es eo; simp [compatS, hr]
  | str hr => intro es eo; simp [compatS, hr]
  | bool => intro es eo; simp [compatS]
  | pattern => intro es eo; simp [compatS]
  | enumInt => intro es eo; simp [compatS]
  | enumStr => intro es eo; simp [compatS]
  | any => intro es eo; simp [compatS]
  | list hr _ ih => intro es eo; rw [compatS]; simp only [hr, Bool.false_eq_true, if_false, ih es eo]
  | map hr _ _ ihk ihv => intro es eo; rw [compatS]; simp only [hr, ihk es eo, ihv es eo, rewrapC, Out.bind, Bool.false_eq_true, if_false]
  | @obj id props n hnd _ ih =>
    intro es eo
    rw [compatS]
    simp only [objOf, bne_self_eq_false, Bool.false_eq_true, if_false]
    have h1 : forAll (objPropCompat (fun a b => compatS (n + 1) es eo a b) props) props = .ok () := by
      refine forAll_ok_iff.mpr (fun kp hkp => ?_)
      simp only [objPropCompat]
      rw [lookupS_of_mem_nodup (k := kp.1) (v := kp.2) hkp hnd]
      simp [ih kp hkp es eo, addSeg]
    have h2 : (props.any fun kp => kp.2.required && !hasKey kp.1 props) = false := by
      cases hh : props.any fun kp => kp.2.required && !hasKey kp.1 props with
      | false => rfl
      | true =>
        obtain ⟨kp, hkp, hb⟩ := List.any_eq_true.mp hh
        have : hasKey kp.1 props = true := by
          simp [hasKey, lookupS_of_mem_nodup (k := kp.1) (v := kp.2) hkp hnd]
        simp [this] at hb
    rw [h1]
    simp [Out.bind, h2]
  | @oneOf ik d inl ms n hnd _ ih =>
    intro es eo
    rw [compatS]
    simp only [bne_self_eq_false, Bool.false_eq_true, if_false]
    refine forAll_ok_iff.mpr (fun km hkm => ?_)
    simp only [oneOfMemberCompat]
    rw [lookupK_of_mem_nodup (k := km.1) (v := km.2) hkm hnd]
    simp [ih km hkm es eo, rewrapC]
  | scope hl _ ih =>
    intro es eo
    rw [compatS]
    simp only [hl, ih]

/-- non-vacuity: a nested object with a list, a map, enums and bounded scalars -/
example : SelfOK (.obj "A" [("xs", .mk (.list (.int (some 0) (some 9) none) (some 1) (some 3)) true [] [] [] none false),
                            ("m", .mk (.map (.str none none none) (.enumStr ["a", "b"]) none (some 5)) false [] [] [] none false)]) 2 := by
  refine .obj (by decide) (fun np hnp => ?_)
  simp at hnp
  rcases hnp with rfl | rfl
  · exact .list (by decide) (.int (by decide))
  · exact .map (by decide) (.str (by decide)) .enumStr

/-- The same with references and scopes: `SelfOKe env t n` - the schema, read in the environment
    `env`, unfolds through its references to nesting depth at most `n` (so its reference graph is
    acyclic), ranges are non-empty and tables have distinct keys. -/
inductive SelfOKe : Env → Ty → Nat → Prop
  | int {env a b u n} : rangeDisjoint a b a b = false → SelfOKe env (.int a b u) n
  | float {env a b u n} : fRangeDisjoint a b a b = false → SelfOKe env (.float a b u) n
  | str {env a b p n} : rangeDisjoint a b a b = false → SelfOKe env (.str a b p) n
  | bool {env n} : SelfOKe env .bool n
  | pattern {env n} : SelfOKe env .pattern n
  | enumInt {env vs u n} : SelfOKe env (.enumInt vs u) n
  | enumStr {env vs n} : SelfOKe env (.enumStr vs) n
  | any {env n} : SelfOKe env .any n
  | list {env item a b n} : rangeDisjoint a b a b = false → SelfOKe env item n → SelfOKe env (.list item a b) (n + 1)
  | map {env k v a b n} : rangeDisjoint a b a b = false → SelfOKe env k n → SelfOKe env v n → SelfOKe env (.map k v a b) (n + 1)
  | obj {env id props n} : (props.map Prod.fst).Nodup → (∀ np, np ∈ props → SelfOKe env np.2.ty n) →
      SelfOKe env (.obj id props) (n + 1)
  | oneOf {env ik d inl ms n} : (ms.map Prod.fst).Nodup → (∀ m, m ∈ ms → SelfOKe env m.2 n) →
      SelfOKe env (.oneOf ik d inl ms) (n + 1)
  | ref {env id o n} : lookupS id env = some o → SelfOKe env o n → SelfOKe env (.ref id) (n + 1)
  | scope {env objs root o n} : lookupS root objs = some o → SelfOKe objs o n → SelfOKe env (.scope objs root) (n + 1)

/-- Reflexivity for schemas with references: every schema whose reference graph is acyclic (and
    whose ranges are non-empty, keys distinct) is compatible with itself, in its own environment.
    For a reference CYCLE the statement is false of the code: `ValidateCompatibility` of such a scope
    with itself does not terminate (known finding `recursive-scope-self-compat`). -/
theorem C15_reflexive_acyclic {env : Env} {t : Ty} {n : Nat} (h : SelfOKe env t n) :
    compatS (n + 1) env env t t = .ok () := by
  induction h with
  | int hr => simp [compatS, hr]
  | float hr => simp [compatS, hr]
  | str hr => simp [compatS, hr]
  | bool => simp [compatS]
  | pattern => simp [compatS]
  | enumInt => simp [compatS]
  | enumStr => simp [compatS]
  | any => simp [compatS]
  | list hr _ ih => rw [compatS]; simp only [hr, Bool.false_eq_true, if_false, ih]
  | map hr _ _ ihk ihv => rw [compatS]; simp only [hr, ihk, ihv, rewrapC, Out.bind, Bool.false_eq_true, if_false]
  | @obj env id props n hnd _ ih =>
    rw [compatS]
    simp only [objOf, bne_self_eq_false, Bool.false_eq_true, if_false]
    have h1 : forAll (objPropCompat (fun a b => compatS (n + 1) env env a b) props) props = .ok () := by
      refine forAll_ok_iff.mpr (fun kp hkp => ?_)
      simp only [objPropCompat]
      rw [lookupS_of_mem_nodup (k := kp.1) (v := kp.2) hkp hnd]
      simp [ih kp hkp, addSeg]
    have h2 : (props.any fun kp => kp.2.required && !hasKey kp.1 props) = false := by
      cases hh : props.any fun kp => kp.2.required && !hasKey kp.1 props with
      | false => rfl
      | true =>
        obtain ⟨kp, hkp, hb⟩ := List.any_eq_true.mp hh
        have : hasKey kp.1 props = true := by
          simp [hasKey, lookupS_of_mem_nodup (k := kp.1) (v := kp.2) hkp hnd]
        simp [this] at hb
    rw [h1]
    simp [Out.bind, h2]
  | @oneOf env ik d inl ms n hnd _ ih =>
    rw [compatS]
    simp only [bne_self_eq_false, Bool.false_eq_true, if_false]
    refine forAll_ok_iff.mpr (fun km hkm => ?_)
    simp only [oneOfMemberCompat]
    rw [lookupK_of_mem_nodup (k := km.1) (v := km.2) hkm hnd]
    simp [ih km hkm, rewrapC]
  | ref hl _ ih =>
    rw [compatS]
    simp only [hl, ih]
  | scope hl _ ih =>
    rw [compatS]
    simp only [hl, ih]

def c15Objs : Env :=
  [("A", .obj "A" [("b", .mk (.ref "B") true [] [] [] none false),
                   ("bs", .mk (.list (.ref "B") none (some 3)) false [] [] [] none false)]),
   ("B", .obj "B" [("n", .mk (.int (some 0) none none) true [] [] [] none false)])]

/-- non-vacuity: a scope whose root refers to a second object, directly and under a list -/
example : SelfOKe [] (.scope c15Objs "A") 5 := by
  have hB : ∀ n, SelfOKe c15Objs (.obj "B" [("n", .mk (.int (some 0) none none) true [] [] [] none false)]) (n + 1) :=
    fun n => .obj (by decide) (fun np hnp => by simp at hnp; subst hnp; exact .int (by decide))
  refine .scope (o := .obj "A" _) rfl (.obj (by decide) (fun np hnp => ?_))
  simp at hnp
  rcases hnp with rfl | rfl
  · exact .ref (o := .obj "B" _) rfl (hB 1)
  · exact .list (by decide) (.ref (o := .obj "B" _) rfl (hB 0))

example : (compatS 6 [] [] (.scope c15Objs "A") (.scope c15Objs "A")).isOk = true := by decide

/-! ### termination -/

/-- Compatibility checking terminates whenever the CONSUMER schema's reference graph is acyclic
    (`FinDepth es s d`, decidable by `finB`), against ANY producer schema and environment - also a
    cyclic or dangling one: every recursive step descends in the consumer. The budget is the
    consumer's unfolding depth. For a consumer with a reference cycle compared with a producer with
    the same cycle the code does not terminate (known finding `recursive-scope-self-compat`). -/
theorem C15_terminates_acyclic {es : Env} {s : Ty} {d : Nat} (h : FinDepth es s d) (eo : Env) (o : Ty)
    (n : Nat) (hn : d < n) : compatS n es eo s o ≠ .fuel :=
  compatS_halts h n hn eo o

def cycName : PropT := .mk (.str none none none) true [] [] [] none false
def cycNext : PropT := .mk (.ref "A") false [] [] [] none false
def cycProps : List (String × PropT) := [("name", cycName), ("next", cycNext)]
def cycA : Ty := .obj "A" cycProps
def cycEnv : Env := [("A", cycA)]

theorem cyc_aux : ∀ n, compatS n cycEnv cycEnv cycA cycA = .fuel ∧
    compatS n cycEnv cycEnv (.ref "A") (.ref "A") = .fuel
  | 0 => by simp [compatS]
  | n + 1 => by
    obtain ⟨hP, hQ⟩ := cyc_aux n
    refine ⟨?_, ?_⟩
    · cases n with
      | zero =>
        have h1 : objPropCompat (fun a b => compatS 0 cycEnv cycEnv a b) cycProps ("name", cycName) = .fuel := rfl
        show compatS 1 cycEnv cycEnv (.obj "A" cycProps) (.obj "A" cycProps) = .fuel
        rw [compatS]
        simp only [objOf, bne_self_eq_false, Bool.false_eq_true, if_false]
        show (forAll _ [("name", cycName), ("next", cycNext)]).bind _ = .fuel
        simp only [forAll, h1, Out.bind]
      | succ k =>
        have h1 : objPropCompat (fun a b => compatS (k + 1) cycEnv cycEnv a b) cycProps ("name", cycName) = .ok () := rfl
        have h2 : objPropCompat (fun a b => compatS (k + 1) cycEnv cycEnv a b) cycProps ("next", cycNext) = .fuel := by
          show (compatS (k + 1) cycEnv cycEnv (.ref "A") (.ref "A")).addSeg "next" = .fuel
          rw [hQ]; rfl
        show compatS (k + 2) cycEnv cycEnv (.obj "A" cycProps) (.obj "A" cycProps) = .fuel
        rw [compatS]
        simp only [objOf, bne_self_eq_false, Bool.false_eq_true, if_false]
        show (forAll _ [("name", cycName), ("next", cycNext)]).bind _ = .fuel
        simp only [forAll, h1, h2, Out.bind]
    · show compatS (n + 1) cycEnv cycEnv (.ref "A") (.ref "A") = .fuel
      rw [compatS]
      have hl : lookupS "A" cycEnv = some cycA := rfl
      simp only [hl]
      exact hP

/-- the recorded non-terminating shape: a scope whose object refers to itself, against itself,
    exhausts every budget - and the real code exhausts its stack (known finding) -/
theorem C15_cycle_hangs (n : Nat) : compatS n [] [] (.scope cycEnv "A") (.scope cycEnv "A") = .fuel := by
  cases n with
  | zero => simp [compatS]
  | succ k =>
    rw [compatS]
    have hl : lookupS "A" cycEnv = some cycA := rfl
    simp only [hl]
    exact (cyc_aux k).1

/-- ... and it is excluded by the hypothesis of `C15_terminates_acyclic` -/
example : finB 50 [] (.scope cycEnv "A") = none := by decide

#print axioms C15_obj_property_incompatible
#print axioms C15_obj_property_order
#print axioms C15_oneof_missing_member
#print axioms C15_reflexive_partial
#print axioms C15_reflexive_acyclic
#print axioms C15_terminates_acyclic
#print axioms C15_cycle_hangs

end Arca
