import Lean.Data.Json
import ArcaModel.Model.Dispatch
import ArcaModel.Model.Func
/-
  Line protocol of the function model (C18). Executable glue only; nothing here is used in a theorem.

  Encodings
    GoType   "int64" | "float64" | "string" | "bool" | "regexp" | "any" | "error"
             | {"slice": T} | {"map": [K, V]}
             | {"named": [pkg, name, under, methods]}   under: int|string|struct|ptr|iface
                                                        methods: none|error|other
    STy      "int" | "float" | "string" | "bool" | "pattern" | "any" | "enumInt" | "enumStr"
             | "object" | "oneOf" | {"list": S} | {"map": [K, V]}
    handler  {"h": "nil"} | {"h": "nonfunc", "t": T}
             | {"h": "nilfunc" | "func", "params": [T], "results": [T], "variadic": bool}
    any      null | {"ty": T, "val": <Arca.V>}                      (a Go `any` value)
    rval     {"iface": T, "v": any} | {"conc": T, "nil": bool, "val": <Arca.V>}
    beh      {"panic": true} | {"rets": [ret]},  ret = {"const": rval} | {"echo": i}
             (`echo i`: the result slot holds argument `i` as received)

  Ops
    FN_NEW     {"handler", "inputs": [S], "output": S | null, "oe": bool}
    FN_NEWDYN  {"handler", "inputs": [S], "thnil": bool}
    FN_CALL    {"mode": "static" | "dynamic" | "raw", handler, inputs, output, oe, thnil,
                "rawdyn": bool, "args": [any], "beh": beh}
               static/dynamic: construct with the respective constructor, then `Call`;
               raw: a `CallableFunctionSchema` literal (StaticOutputValue = output,
               DynamicTypeHandler != nil iff rawdyn), then `Call`.
  Results
    constructors: {"r": "ok"} | {"r": "err", "why": ..}
    calls: {"r": "ok", "v": {"nil": true} | {"ty": T, "val": V}} | {"r": "err-fn", "e": ..}
           | {"r": "err-call"} | {"r": "panic"} | {"r": "rejected", "why": ..}
-/
open Lean

namespace Arca.Dispatch
open Arca.Func

def decUnder : String → R Under
  | "int" => pure .int | "string" => pure .string | "struct" => pure .struct
  | "ptr" => pure .ptr | "iface" => pure .iface | s => throw s!"bad underlying kind {s}"

def decMethods : String → R Methods
  | "none" => pure .none | "error" => pure .error | "other" => pure .other
  | s => throw s!"bad method set {s}"

def underName : Under → String
  | .int => "int" | .string => "string" | .struct => "struct" | .ptr => "ptr" | .iface => "iface"

def methodsName : Methods → String
  | .none => "none" | .error => "error" | .other => "other"

partial def decGoType (j : Json) : R GoType := do
  match j with
  | .str "int64" => return .int64
  | .str "float64" => return .float64
  | .str "string" => return .string
  | .str "bool" => return .bool
  | .str "regexp" => return .regexpPtr
  | .str "any" => return .any
  | .str "error" => return .error
  | _ =>
    if let .ok e := j.getObjVal? "slice" then
      return .slice (← decGoType e)
    if let .ok a := j.getObjVal? "map" then
      let a ← a.getArr?
      return .map (← decGoType a[0]!) (← decGoType a[1]!)
    if let .ok a := j.getObjVal? "named" then
      let a ← a.getArr?
      return .named (← getStr a[0]!) (← getStr a[1]!) (← decUnder (← getStr a[2]!))
        (← decMethods (← getStr a[3]!))
    throw s!"bad go type {j.compress}"

def encGoType : GoType → Json
  | .int64 => "int64" | .float64 => "float64" | .string => "string" | .bool => "bool"
  | .regexpPtr => "regexp" | .any => "any" | .error => "error"
  | .slice e => Json.mkObj [("slice", encGoType e)]
  | .map k v => Json.mkObj [("map", .arr #[encGoType k, encGoType v])]
  | .named p n u m => Json.mkObj [("named", .arr #[.str p, .str n, .str (underName u),
      .str (methodsName m)])]

partial def decSTy (j : Json) : R STy := do
  match j with
  | .str "int" => return .int
  | .str "float" => return .float
  | .str "string" => return .string
  | .str "bool" => return .bool
  | .str "pattern" => return .pattern
  | .str "any" => return .any
  | .str "enumInt" => return .enumInt
  | .str "enumStr" => return .enumStr
  | .str "object" => return .object
  | .str "oneOf" => return .oneOf
  | _ =>
    if let .ok e := j.getObjVal? "list" then
      return .list (← decSTy e)
    if let .ok a := j.getObjVal? "map" then
      let a ← a.getArr?
      return .map (← decSTy a[0]!) (← decSTy a[1]!)
    throw s!"bad schema kind {j.compress}"

def decSig (j : Json) : R Sig := do
  let ps ← (← arrField j "params").toList.mapM decGoType
  let rs ← (← arrField j "results").toList.mapM decGoType
  return ⟨ps, rs, getBool j "variadic"⟩

def decHandler (j : Json) : R HandlerV := do
  match ← getStr (← field j "h") with
  | "nil" => return .untypedNil
  | "nonfunc" => return .nonFunc (← decGoType (← field j "t"))
  | "nilfunc" => return .nilFunc (← decSig j)
  | "func" => return .func (← decSig j)
  | s => throw s!"bad handler {s}"

def decInputs (j : Json) : R (List STy) := do
  (← arrField j "inputs").toList.mapM decSTy

def decOutput (j : Json) : R (Option STy) :=
  match fieldOpt j "output" with
  | none => pure none
  | some o => do return some (← decSTy o)

def decAny (j : Json) : R AnyV := do
  match j with
  | .null => return none
  | _ => return some ⟨← decGoType (← field j "ty"), ← decV (← field j "val")⟩

def encAny : AnyV → Json
  | none => Json.mkObj [("nil", .bool true)]
  | some dv => Json.mkObj [("ty", encGoType dv.ty), ("val", encV dv.data)]

def decRVal (j : Json) : R RVal := do
  if let .ok t := j.getObjVal? "iface" then
    let v ← match j.getObjVal? "v" with
      | .ok v => decAny v
      | .error _ => pure none
    return .iface (← decGoType t) v
  if let .ok t := j.getObjVal? "conc" then
    return .conc (← decGoType t) (getBool j "nil") (← decV (← field j "val"))
  throw s!"bad result value {j.compress}"

/-- one result slot of the handler: a constant, or the argument with the given index -/
inductive Ret where
  | const (r : RVal)
  | echo (i : Nat)

def decRet (j : Json) : R Ret := do
  if let .ok c := j.getObjVal? "const" then
    return .const (← decRVal c)
  if let .ok i := j.getObjVal? "echo" then
    return .echo (← i.getNat?)
  throw s!"bad ret {j.compress}"

/-- the behaviour the harness gave its `reflect.MakeFunc` handler -/
def mkBeh (s : Sig) (panics : Bool) (rets : List Ret) : Beh := fun as =>
  if panics then none
  else some ((rets.zip s.results).map fun (r, t) =>
    match r with
    | .const rv => rv
    | .echo i =>
      let a : AnyV := (as[i]?).join
      if t.isInterface then .iface t a
      else match a with
        | some dv => .conc t false dv.data
        | none => .conc t true .nil)

def decBeh (s : Sig) (j : Json) : R Beh := do
  if getBool j "panic" then return mkBeh s true []
  let rets ← (← arrField j "rets").toList.mapM decRet
  return mkBeh s false rets

def encCtor : Except Reject Callable → Json
  | .ok _ => Json.mkObj [("r", "ok")]
  | .error e => Json.mkObj [("r", "err"), ("why", e.text)]

def encCall : CallOut → Json
  | .value v => Json.mkObj [("r", "ok"), ("v", encAny v)]
  | .errFn e => Json.mkObj [("r", "err-fn"), ("e", encAny (some e))]
  | .errCall => Json.mkObj [("r", "err-call")]
  | .panic => Json.mkObj [("r", "panic")]

def sigOf : HandlerV → Sig
  | .func s => s
  | .nilFunc s => s
  | _ => ⟨[], [], false⟩

def handleFnNew (j : Json) : R Json := do
  let h ← decHandler (← field j "handler")
  let d : Decl := ⟨← decInputs j, ← decOutput j, getBool j "oe"⟩
  return encCtor (newStatic d h)

def handleFnNewDyn (j : Json) : R Json := do
  let h ← decHandler (← field j "handler")
  return encCtor (newDynamic (← decInputs j) h (getBool j "thnil"))

def handleFnCall (j : Json) : R Json := do
  let h ← decHandler (← field j "handler")
  let inputs ← decInputs j
  let output ← decOutput j
  let args ← (← arrField j "args").toList.mapM decAny
  let beh ← decBeh (sigOf h) (← field j "beh")
  let c : Except Reject Callable ← match ← getStr (← field j "mode") with
    | "static" => pure (newStatic ⟨inputs, output, getBool j "oe"⟩ h)
    | "dynamic" => pure (newDynamic inputs h (getBool j "thnil"))
    | "raw" => match h with
      | .func s => pure (.ok ⟨s, output.isSome, getBool j "rawdyn", getBool j "oe"⟩)
      | _ => throw "raw mode needs a function handler"
    | m => throw s!"bad mode {m}"
  match c with
  | .error e => return Json.mkObj [("r", "rejected"), ("why", e.text)]
  | .ok c => return encCall (call c beh args)

/-- handler of the function ops -/
def funcHandler (op : String) (j : Json) : Option (R Json) :=
  match op with
  | "FN_NEW" => some (handleFnNew j)
  | "FN_NEWDYN" => some (handleFnNewDyn j)
  | "FN_CALL" => some (handleFnCall j)
  | _ => none

end Arca.Dispatch
