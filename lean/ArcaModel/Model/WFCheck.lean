import ArcaModel.Model.WF
/-
  An executable well-formedness check, sound for `WF` (used by `example`s and by the driver to
  tell which generated schemas the theorems speak about).
-/
namespace Arca

def objLikeB (env : Env) : Ty → Bool
  | .obj _ _ => true
  | .ref id => match lookupS id env with
    | some (.obj _ _) => true
    | _ => false
  | .scope objs root => match lookupS root objs with
    | some (.obj _ _) => true
    | _ => false
  | _ => false

theorem objLikeB_sound {env : Env} {t : Ty} (h : objLikeB env t = true) : ObjLike env t := by
  cases t <;> simp [objLikeB] at h <;> simp [ObjLike]
  · split at h <;> simp_all
  · split at h <;> simp_all

/-- the default, if any, decodes -/
def defaultOK (p : PropT) : Bool :=
  match p.defaultV with
  | some none => false
  | _ => true

theorem defaultOK_sound {p : PropT} (h : defaultOK p = true) : p.defaultV ≠ some none := by
  unfold defaultOK at h
  split at h <;> simp_all

/-- fuelled structural check of `WF` -/
def wfB : Nat → Env → Ty → Bool
  | 0, _, _ => false
  | n + 1, env, t =>
    match t with
    | .int _ _ _ | .float _ _ _ | .str _ _ _ | .bool | .pattern | .enumInt _ _ | .enumStr _ | .any => true
    | .list item _ _ => wfB n env item
    | .map k v _ _ => wfB n env k && wfB n env v
    | .obj _ props => props.all fun np => wfB n env np.2.ty && defaultOK np.2
    | .oneOf _ _ _ members => members.all fun m => wfB n env m.2 && objLikeB env m.2
    | .ref id => (lookupS id env).isSome
    | .scope objs root => (lookupS root objs).isSome && objs.all fun p => wfB n objs p.2

theorem wfB_sound : ∀ (n : Nat) (env : Env) (t : Ty), wfB n env t = true → WF env t
  | 0, _, _, h => by simp [wfB] at h
  | n + 1, env, t, h => by
    have ih := wfB_sound n
    cases t with
    | int => exact .int
    | float => exact .float
    | str => exact .str
    | bool => exact .bool
    | pattern => exact .pattern
    | enumInt => exact .enumInt
    | enumStr => exact .enumStr
    | any => exact .any
    | list item a b => exact .list (ih _ _ (by simpa [wfB] using h))
    | map k v a b =>
      simp only [wfB, Bool.and_eq_true] at h
      exact .map (ih _ _ h.1) (ih _ _ h.2)
    | obj id props =>
      simp only [wfB, List.all_eq_true, Bool.and_eq_true] at h
      exact .obj (fun np hnp => ih _ _ (h np hnp).1) (fun np hnp => defaultOK_sound (h np hnp).2)
    | oneOf ik d inl members =>
      simp only [wfB, List.all_eq_true, Bool.and_eq_true] at h
      exact .oneOf (fun m hm => ih _ _ (h m hm).1) (fun m hm => objLikeB_sound (h m hm).2)
    | ref id =>
      simp only [wfB] at h
      cases hl : lookupS id env with
      | none => simp [hl] at h
      | some o => exact .ref hl
    | scope objs root =>
      simp only [wfB, Bool.and_eq_true, List.all_eq_true] at h
      cases hl : lookupS root objs with
      | none => simp [hl] at h
      | some o => exact .scope hl (fun p hp => ih _ _ (h.2 p hp))

/-- closed schemas: the empty environment is trivially well-formed -/
theorem envWF_nil : EnvWF [] := by intro p hp; simp at hp

theorem envWF_of_all {env : Env} {n : Nat} (h : env.all (fun p => wfB n env p.2) = true) : EnvWF env := by
  intro p hp
  simp only [List.all_eq_true] at h
  exact wfB_sound _ _ _ (h p hp)

end Arca
