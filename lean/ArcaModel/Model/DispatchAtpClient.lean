import Lean.Data.Json
import ArcaModel.Model.Dispatch
import ArcaModel.Model.AtpClient
/-
  Line-protocol handler of the ATP client model: op "ATP_CLIENT_TRACE".

  A case carries the history the instrumented Go client produced in one session, already expressed
  as labels of `Arca.AtpClient` (harness/atpcs/translate.go does that, mechanically: one label per
  critical section / blocking I/O operation, in the order the client's mutex serialised them), plus
  for every critical section the abstract client state the implementation had at its end (`post`).

  The handler decides TRACE INCLUSION: it replays the labels on the model (`stepG pinned`), and after
  every label with a `post` it compares the model's `(readLoopRunning, done, entries, signal
  channels)` with the implementation's.  Three labels are resolved by a bounded search over model
  steps because the implementation does not tell them apart: `clEnd` (`clRet`, else `clTimeout`),
  `sEof` (`sEnd`, else an arbitrary end of stream; nothing if a server-fatal error already ended the
  stream), and an `lRead` that the client's own observation contradicts is reported.
  Finally the state the history stops in must be one the model allows a finished session to stop in;
  a history that is a run of the model but ends with an unreturned call gets the verdict "hang".
  (Executable glue only; nothing here is used in a theorem.)
-/
open Lean

namespace Arca.Dispatch.AtpClientTrace

open Arca.AtpClient Arca.Dispatch

private def natField (j : Json) (k : String) : R Nat := do
  match (← field j k) with
  | .num n => if n.exponent == 0 && n.mantissa ≥ 0 then pure n.mantissa.toNat else throw s!"bad nat {k}"
  | _ => throw s!"bad nat {k}"

private def intField (j : Json) (k : String) : R Int := do
  match (← field j k) with
  | .num n => if n.exponent == 0 then pure n.mantissa else throw s!"bad int {k}"
  | _ => throw s!"bad int {k}"

private def optNat (j : Json) (k : String) : R (Option Nat) :=
  match fieldOpt j k with
  | none => pure none
  | some (.num n) => if n.exponent == 0 && n.mantissa ≥ 0 then pure (some n.mantissa.toNat) else throw s!"bad nat {k}"
  | some _ => throw s!"bad nat {k}"

def decAtpMsg (j : Json) : R Msg := do
  let t ← getStr (← field j "t")
  let r ← natField j "r"
  match t with
  | "done" => return .workDone r (← optNat j "x")
  | "sig" => return .signal r (getBool j "good")
  | "err" => return .error r (getBool j "sf") (getBool j "vf")
  | "unk" => return .unknown r
  | _ => throw s!"bad message kind {t}"

def decAtpItem (j : Json) : R Item := do
  let k ← getStr (← field j "k")
  match k with
  | "msg" => return .msg (← decAtpMsg (← field j "m"))
  | "hello" => return .hello (← intField j "ver") (getBool j "ok")
  | "v1done" => return .v1done (← natField j "x")
  | "bad" => return .bad
  | "garbage" => return .garbage
  | "eof" => return .eof
  | "ioerr" => return .ioerr
  | _ => throw s!"bad item kind {k}"

def decAtpRes (j : Json) : R Res :=
  match j with
  | .str "err" => pure .err
  | _ => do return .ok (← natField j "ok")

/-- a label of the history: a model label, or one of the two the handler resolves by search -/
inductive TraceLabel where
  | lab (l : Label)
  | clEnd (ok : Bool)
  | sEof

def decAtpLabel (j : Json) : R TraceLabel := do
  let l ← getStr (← field j "l")
  let ok := getBool j "ok"
  match l with
  | "rsCall" => return .lab .rsCall
  | "rsSend" => return .lab (.rsSend ok)
  | "rsRead" => return .lab .rsRead
  | "rsRet" => return .lab .rsRet
  | "call" => return .lab (.call (← natField j "c") (← natField j "r") (getBool j "to") (getBool j "from"))
  | "cReject" => return .lab (.cReject (← natField j "c"))
  | "cSpawnW" => return .lab (.cSpawnW (← natField j "c") (← natField j "w"))
  | "cRegister" => return .lab (.cRegister (← natField j "c") (← optNat j "lo"))
  | "cSend" => return .lab (.cSend (← natField j "c") ok)
  | "cAbandon" => return .lab (.cAbandon (← natField j "c"))
  | "cWait" => return .lab (.cWait (← natField j "c"))
  | "cTake" => return .lab (.cTake (← natField j "c"))
  | "cReadV1" => return .lab (.cReadV1 (← natField j "c"))
  | "cRet" => return .lab (.cRet (← natField j "c") (← decAtpRes (← field j "res")))
  | "lRead" => return .lab (.lRead (← natField j "t"))
  | "lDeliver" => return .lab (.lDeliver (← natField j "t"))
  | "lCheck" => return .lab (.lCheck (← natField j "t"))
  | "lExit" => return .lab (.lExit (← natField j "t"))
  | "wCheck" => return .lab (.wCheck (← natField j "w"))
  | "wRecv" => return .lab (.wRecv (← natField j "w") (← natField j "r"))
  | "wClosed" => return .lab (.wClosed (← natField j "w"))
  | "wCancel" => return .lab (.wCancel (← natField j "w"))
  | "wSend" => return .lab (.wSend (← natField j "w") ok)
  | "clCall" => return .lab .clCall
  | "clCancel" => return .lab .clCancel
  | "clMark" => return .lab .clMark
  | "clSend" => return .lab (.clSend ok)
  | "clEnd" => return .clEnd ok
  | "sRecv" => return .lab .sRecv
  | "sSend" => return .lab (.sSend (← decAtpMsg (← field j "m")))
  | "sEof" => return .sEof
  | "envPut" => return .lab (.envPut (← decAtpItem (← field j "it")))
  | "envLate" => do
    let m ← field j "m"
    let r ← natField m "r"
    let cm : CMsg ← match (← getStr (← field m "t")) with
      | "start" => pure CMsg.startOutput
      | "ws" => pure (CMsg.workStart r)
      | "ws1" => pure CMsg.workStartV1
      | "sig" => pure (CMsg.signal r)
      | "cdone" => pure CMsg.clientDone
      | t => throw s!"bad client message kind {t}"
    return .lab (.envLate cm)
  | _ => throw s!"unknown label {l}"

/-- insertion sort on naturals / on entries by run (small lists) -/
private def insNat (x : Nat) : List Nat → List Nat
  | [] => [x]
  | y :: ys => if x ≤ y then x :: y :: ys else y :: insNat x ys
private def sortNat (l : List Nat) : List Nat := l.foldr insNat []

private def insEnt (x : Nat × Nat × Nat) : List (Nat × Nat × Nat) → List (Nat × Nat × Nat)
  | [] => [x]
  | y :: ys => if x.1 ≤ y.1 then x :: y :: ys else y :: insEnt x ys
private def sortEnt (l : List (Nat × Nat × Nat)) : List (Nat × Nat × Nat) := l.foldr insEnt []

/-- the abstract state as the instrumentation prints it: run, 0 pending / 1 ok / 2 err, output -/
def absEntries (s : State) : List (Nat × Nat × Nat) :=
  sortEnt (s.entries.map fun (r, e) => match e with
    | .pending => (r, 0, 0)
    | .result (.ok x) => (r, 1, x)
    | .result .err => (r, 2, 0))

structure Post where
  flag : Bool
  done : Bool
  entries : List (Nat × Nat × Nat)
  sigs : List Nat
deriving BEq, Repr

def decPost (j : Json) : R Post := do
  let es ← (← arrField j "entries").toList.mapM fun e => do
    let a ← e.getArr?
    match a.toList with
    | [r, st, x] => do
      let n (v : Json) : R Nat := match v with
        | .num m => pure m.mantissa.toNat
        | _ => throw "bad entry"
      return (← n r, ← n st, ← n x)
    | _ => throw "bad entry"
  let sg ← (← arrField j "sigs").toList.mapM fun v => match v with
    | .num m => pure m.mantissa.toNat
    | _ => throw "bad sig"
  return { flag := getBool j "flag", done := getBool j "done", entries := es, sigs := sg }

def postOf (s : State) : Post :=
  { flag := s.flag, done := s.done, entries := absEntries s, sigs := sortNat s.sigs }

/-- one history label on the model; `none` = the model has no such step here -/
def traceStep (pinned : Bool) (s : State) : TraceLabel → Option State
  | .lab l => stepG pinned s l
  | .clEnd _ =>
    match stepG pinned s .clRet with
    | some s' => some s'
    | none => stepG pinned s .clTimeout
  | .sEof =>
    if s.srv.ended then some s
    else match stepG pinned s .sEnd with
      | some s' => some s'
      | none => stepG pinned s (.envPut .eof)

/-- the state a completed session may stop in: every Execute handed its result back, ReadSchema and
    Close (if called) returned -/
def finalOk (s : State) : Bool :=
  s.callers.all (fun p => p.2.pc == .finished) &&
  (s.rs == .idle || s.rs == .finished) &&
  (match s.closer with
   | .idle => true
   | .returned _ => true
   | _ => false)

def describeUnfinished (s : State) : String :=
  let cs := s.callers.filter (fun p => p.2.pc != .finished)
  s!"callers not finished: {cs.map (·.1)}, closer: {repr s.closer}, rs: {repr s.rs}, loops: {repr s.loops}"

/-- what the client itself decoded must agree with the item the model consumed -/
def sawAgrees (j : Json) (before : State) : Bool :=
  match fieldOpt j "saw" with
  | none => true
  | some saw =>
    let sawErr := getBool saw "err"
    match before.s2c with
    | [] => true
    | it :: _ =>
      match it with
      | .msg m =>
        -- in the read loop a message decodes; ReadSchema / the v1 reader see a wrong-typed item
        let l := (j.getObjValAs? String "l").toOption.getD ""
        if l == "lRead" then
          !sawErr && (match saw.getObjVal? "r" with
            | .ok (.num n) =>
              let r := match m with
                | .workDone r _ => r | .signal r _ => r | .error r _ _ => r | .unknown r => r
              n.mantissa.toNat == r
            | _ => true)
        else sawErr
      | .hello _ _ =>
        let l := (j.getObjValAs? String "l").toOption.getD ""
        if l == "rsRead" then !sawErr else sawErr
      | .v1done _ =>
        let l := (j.getObjValAs? String "l").toOption.getD ""
        if l == "cReadV1" then !sawErr else sawErr
      | _ => sawErr

def handleAtpClientTrace (j : Json) : R Json := do
  let pinned := getBool j "pinned"
  let labels ← arrField j "labels"
  let mut s : State := init
  let mut i : Nat := 0
  for lj in labels do
    let tl ← decAtpLabel lj
    if !(sawAgrees lj s) then
      return Json.mkObj [("r", "not-a-trace"), ("at", i), ("why", "the client decoded something else than the item the model consumes"),
        ("label", lj)]
    match traceStep pinned s tl with
    | none =>
      return Json.mkObj [("r", "not-a-trace"), ("at", i), ("why", "the model has no such step in this state"),
        ("label", lj), ("state", s!"flag={s.flag} done={s.done} entries={repr s.entries} loops={repr s.loops} closer={repr s.closer} srv={repr s.srv} s2c={repr s.s2c}")]
    | some s' =>
      s := s'
      match fieldOpt lj "post" with
      | none => pure ()
      | some pj =>
        let p ← decPost pj
        if !(p == postOf s) then
          return Json.mkObj [("r", "not-a-trace"), ("at", i), ("why", "abstract state after the critical section differs"),
            ("label", lj), ("model", s!"{repr (postOf s)}"), ("impl", s!"{repr p}")]
    i := i + 1
  if finalOk s then
    return Json.mkObj [("r", "ok"), ("steps", i)]
  else
    -- The history is a run of the model but stops with a call that has not returned: the same
    -- verdict the harness gives a session in which a call timed out ("hang").  The correspondence is
    -- intact; that the implementation stopped there is reported by the harness's direct oracle.
    return Json.mkObj [("r", "hang"), ("steps", i), ("why", describeUnfinished s)]

end Arca.Dispatch.AtpClientTrace

namespace Arca.Dispatch

/-- handler of the ATP client histories -/
def atpClientHandler (op : String) (j : Json) : Option (R Json) :=
  if op == "ATP_CLIENT_TRACE" then some (AtpClientTrace.handleAtpClientTrace j) else none

end Arca.Dispatch
