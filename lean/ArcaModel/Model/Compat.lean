import ArcaModel.Model.Ops
/-
  Schema-mode ValidateCompatibility: is a producer schema `o` (other) acceptable where the consumer
  schema `s` (self) is expected? Mirrors each kind's `ValidateCompatibility` for the case that the
  argument is a schema. Two environments: references of `s` resolve in `es`, those of `o` in `eo`.
-/
namespace Arca

/-- "mutually exclusive" ranges: the other's minimum above our maximum, or its maximum below our minimum -/
def rangeDisjoint (smin smax omin omax : Option Int) : Bool :=
  (match smax, omin with
    | some sm, some om => om > sm
    | _, _ => false) ||
  (match smin, omax with
    | some sm, some om => om < sm
    | _, _ => false)

def fRangeDisjoint (smin smax omin omax : Option Nat) : Bool :=
  (match smax, omin with
    | some sm, some om => F64.lt sm om
    | _, _ => false) ||
  (match smin, omax with
    | some sm, some om => F64.lt om sm
    | _, _ => false)

/-- `ConvertToObjectSchema` on a schema: the object it denotes and the environment its own
    references resolve in; `none` = not an object-like schema; `some none` = the lookup panics -/
def objOf (eo : Env) : Ty → Option (Option (String × List (String × PropT) × Env))
  | .obj id props => some (some (id, props, eo))
  | .ref id => match lookupS id eo with
    | some (.obj oid ps) => some (some (oid, ps, eo))
    | _ => some none
  | .scope objs root => match lookupS root objs with
    | some (.obj oid ps) => some (some (oid, ps, objs))
    | _ => some none
  | _ => none

/-- traverse a list, stop at first non-ok -/
def forAll {α} (f : α → Out Unit) : List α → Out Unit
  | [] => .ok ()
  | a :: rest => match f a with
    | .ok () => forAll f rest
    | .err e => .err e
    | .panic => .panic
    | .fuel => .fuel

/-- one property of an object producer against the consumer's property table -/
def objPropCompat (rec : Ty → Ty → Out Unit) (sprops : List (String × PropT)) (kp : String × PropT) : Out Unit :=
  match lookupS kp.1 sprops with
  | none => .cerr
  | some sp => (rec sp.ty kp.2.ty).addSeg kp.1

/-- one member of a one-of consumer against the producer's member table -/
def oneOfMemberCompat (rec : Ty → Ty → Out Unit) (omem : List (Key × Ty)) (km : Key × Ty) : Out Unit :=
  match lookupK km.1 omem with
  | none => .cerr
  | some ot => rewrapC (rec km.2 ot)

def compatS : Nat → Env → Env → Ty → Ty → Out Unit
  | 0, _, _, _, _ => .fuel
  | n + 1, es, eo, s, o =>
    match s with
    | .int smin smax _ =>
      match o with
      | .enumInt _ _ => .ok ()
      | .int omin omax _ => if rangeDisjoint smin smax omin omax then .cerr else .ok ()
      | _ => .cerr
    | .float smin smax _ =>
      match o with
      | .float omin omax _ => if fRangeDisjoint smin smax omin omax then .cerr else .ok ()
      | _ => .cerr
    | .str smin smax _ =>
      match o with
      | .enumStr _ => .ok ()
      | .str omin omax _ => if rangeDisjoint smin smax omin omax then .cerr else .ok ()
      | _ => .cerr
    | .bool => match o with
      | .bool => .ok ()
      | _ => .cerr
    | .pattern => match o with
      | .pattern => .ok ()
      | _ => .cerr
    | .enumInt vals _ =>
      match o with
      | .enumInt ovals _ => if ovals.all vals.contains then .ok () else .cerr
      | _ => .cerr
    | .enumStr vals =>
      match o with
      | .enumStr ovals => if ovals.all vals.contains then .ok () else .cerr
      | _ => .cerr
    | .list item smin smax =>
      match o with
      | .list oitem omin omax =>
        if rangeDisjoint smin smax omin omax then .cerr else compatS n es eo item oitem
      | _ => .cerr
    | .map sk sv smin smax =>
      match o with
      | .map ok ov omin omax =>
        (rewrapC (compatS n es eo sk ok)).bind fun _ =>
          (rewrapC (compatS n es eo sv ov)).bind fun _ =>
            if rangeDisjoint smin smax omin omax then .cerr else .ok ()
      | _ => .cerr
    | .obj sid sprops =>
      match objOf eo o with
      | none => .cerr
      | some none => .panic
      | some (some (oid, oprops, eo')) =>
        if sid != oid then .cerr else
        (forAll (objPropCompat (fun a b => compatS n es eo' a b) sprops) oprops).bind fun _ =>
          if sprops.any (fun kp => kp.2.required && !(hasKey kp.1 oprops)) then .cerr else .ok ()
    | .oneOf sik sdisc _ smem =>
      match o with
      | .oneOf oik odisc _ omem =>
        if sik != oik then .cerr else
        if sdisc != odisc then .cerr else
        forAll (oneOfMemberCompat (fun a b => compatS n es eo a b) omem) smem
      | _ => .cerr
    | .ref id =>
      match lookupS id es with
      | none => .panic
      | some st =>
        match o with
        | .ref oid => match lookupS oid eo with
          | some ot => compatS n es eo st ot
          | none => .panic
        | _ => compatS n es eo st o
    | .scope sobjs sroot =>
      match lookupS sroot sobjs with
      | none => .panic
      | some st =>
        match o with
        | .scope oobjs oroot => match lookupS oroot oobjs with
          | some ot => compatS n sobjs oobjs st ot
          | none => .panic
        | _ => compatS n sobjs eo st o
    | .any =>
      match o with
      | .pattern => .cerr
      | .ref oid => match lookupS oid eo with
        | some _ => .ok ()
        | none => .panic
      | .scope oobjs oroot => match lookupS oroot oobjs with
        | some _ => .ok ()
        | none => .panic
      | _ => .ok ()

end Arca
