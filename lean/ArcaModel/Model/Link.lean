import ArcaModel.Model.Ops
/-
  LINKING of references, as the SDK performs it (C14).

  In the Go code a `RefSchema` carries a mutable pointer `referencedObjectCache`; the pointer is set
  by `ApplyNamespace(objects, namespace)`, an imperative traversal of the schema tree that hands a
  table `id -> *ObjectSchema` downwards. `NewScopeSchema` calls `ApplySelf()` =
  `ApplyNamespace(nil, "")`; a `ScopeSchema` REPLACES the table it was handed by its own objects when
  the namespace is the self namespace `""` and passes it through otherwise; a `RefSchema` ignores
  every namespace but its own and panics when the table has no entry for its ID.

  This file models exactly that: schema trees whose references carry their link state,
  `applyNs` (one `ApplyNamespace` call), `build` (what the constructors do, bottom-up),
  `validateRefs` (`ValidateReferences`), and - independently - the declarative reading: the list of
  reference occurrences `occs`, each with the table of its nearest enclosing scope, and `lexical`.
  `toTy` forgets link state for fully linked self-namespace trees and yields the schema `Arca.run`
  interprets (where `.ref id` is looked up in the objects of the nearest enclosing `.scope`).

  Abstractions (recorded): an object's identity (a Go pointer) is its address - owner tree, path of
  the scope holding it, ID; scalar schemas are opaque leaves; property flags are dropped; the
  discriminator-field check a one-of runs after linking its members is not modelled (generated
  one-ofs satisfy it; as repaired it skips members whose namespace is not applied yet); a scope's
  object map is a list (IDs within one scope are distinct in generated trees).
  Core Lean only (linked into the driver).
-/
namespace Arca.Link

/-- position in a schema tree: property names / member keys / object IDs, `"[]"` for a list's item,
    `"{k}"` and `"{v}"` for a map's key and value schema -/
abbrev Path := List String

/-- identity of an `*ObjectSchema` held by a scope: which tree (`""` = the tree under test, else the
    namespace whose scope it comes from), where the scope is, and the object's ID -/
structure Addr where
  owner : String
  scope : Path
  id : String
deriving DecidableEq, Repr, Inhabited

/-- `map[string]*ObjectSchema` -/
abbrev Table := List (String × Addr)

/-- Schema trees with link state. `nil`/`cons` are the cells of child lists (the properties of an
    object, the members of a one-of, the objects of a scope: `cons label child rest`); keeping them
    in the one inductive makes every traversal and every proof a plain structural recursion. -/
inductive LTy where
  | leaf (t : Ty)
  | ref (id ns : String) (link : Option Addr)
  | list (item : LTy)
  | map (k v : LTy)
  | obj (id : String) (props : LTy)
  | oneOf (disc : String) (members : LTy)
  | scope (objs : LTy) (root : String)
  | nil
  | cons (label : String) (head tail : LTy)

instance : Inhabited LTy := ⟨.nil⟩

/-- labels of a child list -/
def labels : LTy → List String
  | .cons l _ t => l :: labels t
  | _ => []

/-- child of a child list by label (first match, as `lookupS`) -/
def child (k : String) : LTy → Option LTy
  | .cons l h t => if k == l then some h else child k t
  | _ => none

/-- `s.Objects()` of the scope at `p` in tree `w`: every ID with the identity of its object -/
def selfTable (w : String) (p : Path) (objs : LTy) : Table :=
  (labels objs).map fun id => (id, ⟨w, p, id⟩)

/-- One call `t.ApplyNamespace(tbl, ns)` on the tree at position `p` of tree `w`.
    `ScopeSchema.ApplyNamespace`: own objects for the self namespace, the given table otherwise;
    `RefSchema.ApplyNamespace`: other namespaces are skipped, a missing ID panics. -/
def applyNs (w : String) (tbl : Table) (ns : String) : Path → LTy → Out LTy
  | _, .leaf t => .ok (.leaf t)
  | _, .nil => .ok .nil
  | _, .ref id n link =>
    if n != ns then .ok (.ref id n link) else
    match lookupS id tbl with
    | some a => .ok (.ref id n (some a))
    | none => .panic
  | p, .list i => (applyNs w tbl ns (p ++ ["[]"]) i).bind fun i' => .ok (.list i')
  | p, .map k v =>
    (applyNs w tbl ns (p ++ ["{k}"]) k).bind fun k' =>
      (applyNs w tbl ns (p ++ ["{v}"]) v).bind fun v' => .ok (.map k' v')
  | p, .obj id ps => (applyNs w tbl ns p ps).bind fun ps' => .ok (.obj id ps')
  | p, .oneOf d ms => (applyNs w tbl ns p ms).bind fun ms' => .ok (.oneOf d ms')
  | p, .scope objs root =>
    (applyNs w (if ns == "" then selfTable w p objs else tbl) ns p objs).bind fun objs' =>
      .ok (.scope objs' root)
  | p, .cons l h t =>
    (applyNs w tbl ns (p ++ [l]) h).bind fun h' =>
      (applyNs w tbl ns p t).bind fun t' => .ok (.cons l h' t')

/-- What the public constructors do to a freshly written tree: Go values are built bottom-up, and
    every `NewScopeSchema` ends with `ApplySelf()` = `ApplyNamespace(nil, "")` on the new scope
    (which re-traverses the scopes nested in it). -/
def build (w : String) : Path → LTy → Out LTy
  | _, .leaf t => .ok (.leaf t)
  | _, .nil => .ok .nil
  | _, .ref id n link => .ok (.ref id n link)
  | p, .list i => (build w (p ++ ["[]"]) i).bind fun i' => .ok (.list i')
  | p, .map k v =>
    (build w (p ++ ["{k}"]) k).bind fun k' => (build w (p ++ ["{v}"]) v).bind fun v' => .ok (.map k' v')
  | p, .obj id ps => (build w p ps).bind fun ps' => .ok (.obj id ps')
  | p, .oneOf d ms => (build w p ms).bind fun ms' => .ok (.oneOf d ms')
  | p, .scope objs root =>
    (build w p objs).bind fun objs' => applyNs w [] "" p (.scope objs' root)
  | p, .cons l h t =>
    (build w (p ++ [l]) h).bind fun h' => (build w p t).bind fun t' => .ok (.cons l h' t')

/-- a sequence of `ApplyNamespace(table, ns)` calls on the root of the tree under test -/
def applySeq (apps : List (String × Table)) (t : LTy) : Out LTy :=
  match apps with
  | [] => .ok t
  | (ns, tbl) :: rest => (applyNs "" tbl ns [] t).bind (applySeq rest)

/-- `ApplyNamespace(tbl, ns)` called on the scope(s) at position `target` inside a larger tree (an
    already constructed scope that is about to be embedded into a new outer scope, or that keeps
    being used on its own); the rest of the tree is untouched. -/
def applyAt (w : String) (tbl : Table) (ns : String) (target : Path) : Path → LTy → Out LTy
  | _, .leaf t => .ok (.leaf t)
  | _, .nil => .ok .nil
  | _, .ref id n link => .ok (.ref id n link)
  | p, .list i => (applyAt w tbl ns target (p ++ ["[]"]) i).bind fun i' => .ok (.list i')
  | p, .map k v =>
    (applyAt w tbl ns target (p ++ ["{k}"]) k).bind fun k' =>
      (applyAt w tbl ns target (p ++ ["{v}"]) v).bind fun v' => .ok (.map k' v')
  | p, .obj id ps => (applyAt w tbl ns target p ps).bind fun ps' => .ok (.obj id ps')
  | p, .oneOf d ms => (applyAt w tbl ns target p ms).bind fun ms' => .ok (.oneOf d ms')
  | p, .scope objs root =>
    if p == target then applyNs w tbl ns p (.scope objs root)
    else (applyAt w tbl ns target p objs).bind fun objs' => .ok (.scope objs' root)
  | p, .cons l h t =>
    (applyAt w tbl ns target (p ++ [l]) h).bind fun h' =>
      (applyAt w tbl ns target p t).bind fun t' => .ok (.cons l h' t')

/-- `scope.ObjectsValue[id] = object`: replace (or add) an entry of a child list -/
def setChild (id : String) (new : LTy) : LTy → LTy
  | .cons l h t => if l == id then .cons l new t else .cons l h (setChild id new t)
  | .nil => .cons id new .nil
  | t => t

/-- `ObjectsValue[id] = object` on the scope at position `target` of a larger tree. The new object
    comes with its own (fresh) references; nothing else is touched - in particular references that
    were linked to the replaced object are not: they carry the ADDRESS of the entry, which now
    denotes the new object, whereas the Go pointer still denotes the old one until the namespace is
    applied again (the correspondence check gives replaced objects a stale identity and only
    observes after a re-application). -/
def replaceAt (target : Path) (id : String) (new : LTy) : Path → LTy → LTy
  | _, .leaf t => .leaf t
  | _, .nil => .nil
  | _, .ref i n link => .ref i n link
  | p, .list i => .list (replaceAt target id new (p ++ ["[]"]) i)
  | p, .map k v => .map (replaceAt target id new (p ++ ["{k}"]) k) (replaceAt target id new (p ++ ["{v}"]) v)
  | p, .obj oid ps => .obj oid (replaceAt target id new p ps)
  | p, .oneOf d ms => .oneOf d (replaceAt target id new p ms)
  | p, .scope objs root =>
    if p == target then .scope (setChild id new objs) root
    else .scope (replaceAt target id new p objs) root
  | p, .cons l h t => .cons l (replaceAt target id new (p ++ [l]) h) (replaceAt target id new p t)

/-- An application whose panic the caller recovers from (`defer recover()`): the tree afterwards.
    A failed application yields no tree at all in the model, so the recovered caller keeps what it
    had. Abstraction (recorded): the Go pass links references in map order until it reaches the
    missing ID, so references it visited earlier ARE re-linked; that is invisible when the table has
    none of the IDs the tree refers to, or is a sub-table of the table those references are already
    bound to - the only failing applications the correspondence check generates. What must hold in
    every case is that the reference whose ID is missing keeps its previous state. -/
def recovered (r : Out LTy) (t : LTy) : LTy :=
  match r with
  | .ok t' => t'
  | _ => t

/-- `ValidateReferences() == nil` -/
def validateRefs : LTy → Bool
  | .leaf _ => true
  | .nil => true
  | .ref _ _ link => link.isSome
  | .list i => validateRefs i
  | .map k v => validateRefs k && validateRefs v
  | .obj _ ps => validateRefs ps
  | .oneOf _ ms => validateRefs ms
  | .scope objs _ => validateRefs objs
  | .cons _ h t => validateRefs h && validateRefs t

/-! ### the declarative reading -/

/-- one reference occurrence: where it is, what it names, its link, and the objects of the nearest
    enclosing scope (`none` outside every scope) -/
structure Occ where
  path : Path
  id : String
  ns : String
  link : Option Addr
  ctx : Option Table

/-- all reference occurrences of the tree at `p`, in traversal order -/
def occs (w : String) : Option Table → Path → LTy → List Occ
  | _, _, .leaf _ => []
  | _, _, .nil => []
  | ctx, p, .ref id n link => [⟨p, id, n, link, ctx⟩]
  | ctx, p, .list i => occs w ctx (p ++ ["[]"]) i
  | ctx, p, .map k v => occs w ctx (p ++ ["{k}"]) k ++ occs w ctx (p ++ ["{v}"]) v
  | ctx, p, .obj _ ps => occs w ctx p ps
  | ctx, p, .oneOf _ ms => occs w ctx p ms
  | _, p, .scope objs _ => occs w (some (selfTable w p objs)) p objs
  | ctx, p, .cons l h t => occs w ctx (p ++ [l]) h ++ occs w ctx p t

/-- The object a reference denotes: for the self namespace the object with that ID in the NEAREST
    enclosing scope (no search outwards: a miss there is a construction-time panic, so an inner
    scope shadows every outer one completely); for another namespace the entry of that namespace's
    table. -/
def lexical (ext : List (String × Table)) (o : Occ) : Option Addr :=
  if o.ns == "" then
    match o.ctx with
    | some tb => lookupS o.id tb
    | none => none
  else
    match lookupS o.ns ext with
    | some tb => lookupS o.id tb
    | none => none

/-- the effect of one `ApplyNamespace(tbl, ns)` on one occurrence -/
def relink (tbl : Table) (ns : String) (o : Occ) : Occ :=
  if o.ns != ns then o else
  { o with link := lookupS o.id (if ns == "" then o.ctx.getD tbl else tbl) }

/-! ### translation to the schema `run` interprets -/

/-- Forget link state. Defined for trees in which every reference is a linked self-namespace
    reference; `.ref id` is then resolved by `run` in the objects of the nearest enclosing `.scope`.
    Properties become optional properties without defaults; one-of members string-keyed. -/
def toTy : LTy → Option Ty
  | .leaf t => some t
  | .ref id ns link => if ns == "" && link.isSome then some (.ref id) else none
  | .list i => (toTy i).map fun i' => .list i' none none
  | .map k v => (toTy k).bind fun k' => (toTy v).map fun v' => .map k' v' none none
  | .obj id ps => (toKids ps).map fun ps' => .obj id (ps'.map fun (n, t) => (n, PropT.mk t false [] [] [] none false))
  | .oneOf d ms => (toKids ms).map fun ms' => .oneOf false d false (ms'.map fun (n, t) => (Key.s n, t))
  | .scope objs root => (toKids objs).map fun objs' => .scope objs' root
  | .nil => none
  | .cons _ _ _ => none
where
  /-- a child list -/
  toKids : LTy → Option (List (String × Ty))
    | .nil => some []
    | .cons l h t => (toTy h).bind fun h' => (toKids t).map fun t' => (l, h') :: t'
    | _ => none

end Arca.Link
