/-
  The ATP client (`atp/client.go`) as a labelled transition system.

  Granularity: one step = one critical section of `client.mutex` (or one blocking I/O operation /
  one goroutine-local decision between two critical sections).  All shared client state
  (`runningStepResultEntries`, `runningStepEmittedSignalChannels`, `readLoopRunning`, `done`) is
  only touched under that mutex (table fact, `Gen/AtpClientFacts.lean`), so the interleavings of
  these steps are exactly the behaviours of the Go code.

  Threads: callers of `Execute` (one per call, unboundedly many), read-loop goroutines, signal
  writer goroutines, the caller of `Close`, the caller of `ReadSchema`.  The environment is the
  peer: it consumes the client-to-server stream and produces the server-to-client stream, either as a
  correct server (`sRecv / sSend / sEnd`, guarded) or arbitrarily (`envPut`, write failures).

  `stepG false` is the CURRENT code; `stepG true` is the variant before commit 81c38a0 in which the
  read loop decides to exit in one critical section and clears `readLoopRunning` in a later one.

  Not exhibited by the model (assumed): `sync.Cond.Signal` after the result is stored wakes the
  single waiter and there are no spurious wake-ups; the receiver of `signalsFromStep` keeps
  receiving until the channel is closed (the read loop forwards a signal while holding the mutex);
  byte framing of the CBOR library (the harness classifies bytes into items with the real decoder).

  ASSUMPTION E (write side), on which every liveness statement about this model rests:
  a write to the client-to-server stream completes without waiting for the peer.  In the model
  `c2s` is an unbounded queue, the send steps (`rsSend / cSend / wSend / clSend`) are atomic and the
  environment step `sRecv` is enabled whenever `c2s` is non-empty.  In client.go the write happens in
  `sendCBOR` WHILE THE CLIENT MUTEX IS HELD (`c.mutex.Lock(); defer c.mutex.Unlock();
  c.encoder.Encode(message)`), so on a transport without buffering that critical section lasts until
  the peer reads, and nothing else of the client - in particular the read loop's `lDeliver` /
  `lCheck` and every `cRegister` - can run meanwhile.  Steps of this model are whole critical
  sections; a state "inside sendCBOR, lock held, waiting for the peer" does not exist in it, so the
  model cannot express a peer that reads only while its own output is being consumed.  The
  library's own server is such a peer (its read loop blocks on the `workDone` channel of capacity 3
  while its report writer waits for the client to read), hence it does NOT meet E over unbuffered
  pipes: harness sessions `backpressure-*` (marker "mutex-held-across-blocking-write") deadlock the
  real client deterministically.  E holds for every peer over a buffering transport, and for every
  peer once `sendCBOR` serialises writers with a mutex of its own (then a waiting write blocks only
  other writes, the read loop keeps consuming the peer's output, and the peer reads again).

  Core Lean only (linked into the native driver).
-/
namespace Arca.AtpClient

abbrev Run := Nat      -- run ID; 0 is the blank run ID
abbrev Tid := Nat      -- thread (goroutine / call) identifier

/-- an `ExecutionResult`: success with (an abstract) output, or an error -/
inductive Res where
  | ok (x : Nat)
  | err
deriving DecidableEq, Repr, Inhabited

/-- `executionEntry.result`: nil or set -/
inductive Entry where
  | pending
  | result (r : Res)
deriving DecidableEq, Repr, Inhabited

/-- a well-formed runtime message as the read loop sees it -/
inductive Msg where
  /-- work-done for run `r`; `x = none`: the data field does not decode with the client's strict
      decoder - garbled, or the payload of another message type (unknown fields) - : error result -/
  | workDone (r : Run) (x : Option Nat)
  /-- signal emitted by the step; `good = false`: data does not decode strictly (logged, dropped) -/
  | signal (r : Run) (good : Bool)
  /-- error message with its two flags (a strict-decoding failure is logged; the flags are those of
      the struct as far as it was filled: all false for a payload of another type) -/
  | error (r : Run) (stepFatal serverFatal : Bool)
  /-- any other message ID -/
  | unknown (r : Run)
deriving DecidableEq, Repr, Inhabited

/-- one item of the server-to-client stream -/
inductive Item where
  | msg (m : Msg)
  | hello (ver : Int) (schemaOk : Bool)
  | v1done (x : Nat)
  /-- a well-formed CBOR item that does not decode into what the reader expects: consumed, error -/
  | bad
  /-- malformed bytes: the decoder never gets past them -/
  | garbage
  | eof
  | ioerr
deriving DecidableEq, Repr, Inhabited

/-- faults the decoder reports again on every later call -/
def Item.sticky : Item → Bool
  | .garbage | .eof | .ioerr => true
  | _ => false

/-- client-to-server messages -/
inductive CMsg where
  | startOutput
  | workStart (r : Run)
  | workStartV1
  | signal (r : Run)
  | clientDone
deriving DecidableEq, Repr, Inhabited

/-- position of an `Execute` call -/
inductive CPc where
  /-- called; `needW`: the signal writer goroutine still has to be spawned -/
  | start (needW : Bool)
  /-- `prepareResultChannels` done -/
  | registered
  /-- work-start written (v3) -/
  | sent
  /-- inside `condition.Wait()` -/
  | waiting
  /-- work-start written (v1) -/
  | sentV1
  /-- the work-start write failed (v3); `removeResultChannels` is still to run -/
  | sendFailed
  /-- result determined, not yet handed to the caller -/
  | returned (res : Res)
  | finished
deriving DecidableEq, Repr, Inhabited

structure Caller where
  run : Run
  wantTo : Bool
  wantFrom : Bool
  pc : CPc
deriving DecidableEq, Repr, Inhabited

/-- position of a read loop goroutine (a loop that has ended is removed from the state) -/
inductive LPc where
  | decode
  /-- a message (`none`: a decode error) has been read and is about to be handled -/
  | handle (m : Option Msg)
  | check
  /-- pre-repair variant only: decided to exit, `readLoopRunning` not yet cleared -/
  | exiting
deriving DecidableEq, Repr, Inhabited

/-- position of a signal writer goroutine -/
inductive WPc where
  | init
  | select
  | have (r : Run)
deriving DecidableEq, Repr, Inhabited

/-- position of the `Close` call -/
inductive ClPc where
  | idle
  | called
  | cancelled
  | marked
  | sentDone
  | failed
  | returned (ok : Bool)
deriving DecidableEq, Repr, Inhabited

/-- position of the `ReadSchema` call -/
inductive RsPc where
  | idle
  | called
  | sentNil
  | returned (ok : Bool)
  | finished
deriving DecidableEq, Repr, Inhabited

/-- the correct server's bookkeeping (environment) -/
structure Srv where
  /-- accepted work-starts without a terminal message yet -/
  owed : List Run
  gotDone : Bool
  /-- the server-to-client stream has been ended (nothing more is appended) -/
  ended : Bool
deriving DecidableEq, Repr, Inhabited

structure State where
  ver : Int
  entries : List (Run × Entry)
  sigs : List Run
  flag : Bool
  done : Bool
  cancelled : Bool
  loops : List (Tid × LPc)
  callers : List (Tid × Caller)
  writers : List (Tid × WPc)
  closer : ClPc
  rs : RsPc
  s2c : List Item
  c2s : List CMsg
  srv : Srv
  /-- ghost: intact work-done items consumed by a reader, `(run, output)` -/
  consumed : List (Run × Nat)
  /-- ghost: `Execute` calls that have returned to their caller -/
  retd : List Tid
deriving DecidableEq, Repr, Inhabited

def init : State :=
  { ver := -1, entries := [], sigs := [], flag := false, done := false, cancelled := false,
    loops := [], callers := [], writers := [], closer := .idle, rs := .idle, s2c := [], c2s := [],
    srv := ⟨[], false, false⟩, consumed := [], retd := [] }

inductive Label where
  -- ReadSchema
  | rsCall
  | rsSend (ok : Bool)
  | rsRead
  | rsRet
  -- Execute
  | call (c : Tid) (r : Run) (wantTo wantFrom : Bool)
  | cReject (c : Tid)
  | cSpawnW (c w : Tid)
  | cRegister (c : Tid) (l : Option Tid)
  | cSend (c : Tid) (ok : Bool)
  | cAbandon (c : Tid)
  | cWait (c : Tid)
  | cTake (c : Tid)
  | cReadV1 (c : Tid)
  | cRet (c : Tid) (res : Res)
  -- read loop
  | lRead (l : Tid)
  | lDeliver (l : Tid)
  | lCheck (l : Tid)
  | lExit (l : Tid)
  -- signal writer
  | wCheck (w : Tid)
  | wRecv (w : Tid) (r : Run)
  | wClosed (w : Tid)
  | wCancel (w : Tid)
  | wSend (w : Tid) (ok : Bool)
  -- Close
  | clCall
  | clCancel
  | clMark
  | clSend (ok : Bool)
  | clRet
  | clTimeout
  -- environment
  | sRecv
  | sSend (m : Msg)
  | sEnd
  | envPut (it : Item)
  /-- the transport delivered a client message although it reported the write as failed -/
  | envLate (m : CMsg)
deriving DecidableEq, Repr, Inhabited

/-! ### association-list helpers -/

def hasKey {β} (l : List (Nat × β)) (k : Nat) : Bool := l.any (fun p => p.1 == k)

def setT {β} (l : List (Nat × β)) (k : Nat) (v : β) : List (Nat × β) :=
  l.map (fun p => if p.1 == k then (p.1, v) else p)

def delT {β} (l : List (Nat × β)) (k : Nat) : List (Nat × β) := l.filter (fun p => p.1 != k)

def Entry.isPending : Entry → Bool
  | .pending => true
  | _ => false

def anyPending (es : List (Run × Entry)) : Bool := es.any (fun p => p.2.isPending)

/-- `sendExecutionResult` on every entry -/
def failAll (es : List (Run × Entry)) : List (Run × Entry) := es.map (fun p => (p.1, .result .err))

/-- `sendExecutionResult` for one run (no effect when the entry does not exist) -/
def setRes (es : List (Run × Entry)) (r : Run) (v : Res) : List (Run × Entry) := setT es r (.result v)

/-- signal channels that remain after the channels of all runs with an entry were closed -/
def closeSigs (sigs : List Run) (es : List (Run × Entry)) : List Run :=
  sigs.filter (fun r => !hasKey es r)

def fresh (s : State) (t : Tid) : Bool :=
  !hasKey s.loops t && !hasKey s.writers t && !hasKey s.callers t

def wgZero (s : State) : Bool := s.loops.isEmpty && s.writers.isEmpty

/-! ### the steps, thread by thread -/

/-- `ReadSchema` -/
def stepRs (s : State) : Label → Option State
  | .rsCall => if s.rs = .idle then some { s with rs := .called } else none
  | .rsSend ok =>
    if s.rs = .called then
      if ok then some { s with rs := .sentNil, c2s := s.c2s ++ [.startOutput] }
      else some { s with rs := .returned false }
    else none
  | .rsRead =>
    if s.rs = .sentNil then
      match s.s2c with
      | [] => none
      | it :: rest =>
        let s2c' := if it.sticky then s.s2c else rest
        match it with
        | .hello v okSchema =>
          if v = 1 ∨ v = 3 then some { s with s2c := s2c', ver := v, rs := .returned okSchema }
          else some { s with s2c := s2c', rs := .returned false }
        | _ => some { s with s2c := s2c', rs := .returned false }
    else none
  | .rsRet =>
    match s.rs with
    | .returned _ => some { s with rs := .finished }
    | _ => none
  | _ => none

/-- read loop; `pinned`: the variant before the repair -/
def stepLoop (pinned : Bool) (s : State) : Label → Option State
  | .lRead l =>
    match s.loops.lookup l, s.s2c with
    | some .decode, it :: rest =>
      let s2c' := if it.sticky then s.s2c else rest
      let om : Option Msg := match it with
        | .msg m => some m
        | _ => none
      let consumed' := match it with
        | .msg (.workDone r (some x)) => s.consumed ++ [(r, x)]
        | _ => s.consumed
      some { s with s2c := s2c', loops := setT s.loops l (.handle om), consumed := consumed' }
    | _, _ => none
  | .lDeliver l =>
    match s.loops.lookup l with
    | some (.handle om) =>
      -- `sendErrorToAllAndStopReading` followed by the loop's return
      let fatal : State :=
        if pinned then
          { s with entries := failAll s.entries, sigs := closeSigs s.sigs s.entries,
                   loops := setT s.loops l .exiting }
        else
          { s with entries := failAll s.entries, sigs := closeSigs s.sigs s.entries,
                   flag := false, loops := delT s.loops l }
      match om with
      | none => some fatal
      | some (.workDone r x) =>
        let v : Res := match x with
          | some y => .ok y
          | none => .err
        some { s with entries := setRes s.entries r v, sigs := s.sigs.filter (· != r),
                      loops := setT s.loops l .check }
      | some (.signal _ _) => some { s with loops := setT s.loops l .check }
      | some (.error r sf vf) =>
        if vf then some fatal
        else if sf then
          if r = 0 then
            some { s with entries := failAll s.entries, sigs := closeSigs s.sigs s.entries,
                          loops := setT s.loops l .check }
          else
            some { s with entries := setRes s.entries r .err, sigs := s.sigs.filter (· != r),
                          loops := setT s.loops l .check }
        else some { s with loops := setT s.loops l .check }
      | some (.unknown _) => some { s with loops := setT s.loops l .check }
    | _ => none
  | .lCheck l =>
    match s.loops.lookup l with
    | some .check =>
      if anyPending s.entries then some { s with loops := setT s.loops l .decode }
      else if pinned then some { s with loops := setT s.loops l .exiting }
      else some { s with flag := false, loops := delT s.loops l }
    | _ => none
  | .lExit l =>
    match s.loops.lookup l with
    | some .exiting =>
      if pinned then some { s with flag := false, loops := delT s.loops l } else none
    | _ => none
  | _ => none

/-- `Execute` -/
def stepCaller (s : State) : Label → Option State
  | .call c r wantTo wantFrom =>
    if fresh s c then
      some { s with callers := s.callers ++
        [(c, { run := r, wantTo := wantTo, wantFrom := wantFrom,
               pc := .start (wantTo && decide (s.ver > 1) && decide (r ≠ 0)) })] }
    else none
  | .cReject c =>
    match s.callers.lookup c with
    | some k =>
      match k.pc with
      | .start _ =>
        if k.run = 0 then some { s with callers := setT s.callers c { k with pc := .returned .err } }
        else none
      | _ => none
    | none => none
  | .cSpawnW c w =>
    match s.callers.lookup c with
    | some k =>
      if k.pc = .start true then
        -- the wait-group Add for the writer happens under the mutex, and only while not closed
        if s.done then some { s with callers := setT s.callers c { k with pc := .returned .err } }
        else if fresh s w then
          some { s with callers := setT s.callers c { k with pc := .start false },
                        writers := s.writers ++ [(w, .init)] }
        else none
      else none
    | none => none
  | .cRegister c lo =>
    match s.callers.lookup c with
    | some k =>
      if k.pc = .start false ∧ k.run ≠ 0 ∧ s.ver > 1 then
        if s.done then
          -- Close has begun: no registration, no new read loop
          if lo = none then some { s with callers := setT s.callers c { k with pc := .returned .err } }
          else none
        else if hasKey s.entries k.run then
          -- duplicate run ID
          if lo = none then some { s with callers := setT s.callers c { k with pc := .returned .err } }
          else none
        else
          let entries' := s.entries ++ [(k.run, .pending)]
          let sigs' := if k.wantFrom then s.sigs ++ [k.run] else s.sigs
          let callers' := setT s.callers c { k with pc := .registered }
          if s.flag then
            if lo = none then some { s with entries := entries', sigs := sigs', callers := callers' }
            else none
          else
            match lo with
            | some l =>
              if fresh s l then
                some { s with entries := entries', sigs := sigs', callers := callers', flag := true,
                              loops := s.loops ++ [(l, .decode)] }
              else none
            | none => none
      else none
    | none => none
  | .cSend c ok =>
    match s.callers.lookup c with
    | some k =>
      if k.pc = .registered then
        if ok then
          some { s with c2s := s.c2s ++ [.workStart k.run],
                        callers := setT s.callers c { k with pc := .sent } }
        else some { s with callers := setT s.callers c { k with pc := .sendFailed } }
      else if k.pc = .start false ∧ k.run ≠ 0 ∧ s.ver ≤ 1 then
        if ok then
          some { s with c2s := s.c2s ++ [.workStartV1],
                        callers := setT s.callers c { k with pc := .sentV1 } }
        else some { s with callers := setT s.callers c { k with pc := .returned .err } }
      else none
    | none => none
  | .cAbandon c =>
    -- `removeResultChannels` (its own critical section, after the failed write)
    match s.callers.lookup c with
    | some k =>
      if k.pc = .sendFailed then
        some { s with entries := delT s.entries k.run, sigs := s.sigs.filter (· != k.run),
                      callers := setT s.callers c { k with pc := .returned .err } }
      else none
    | none => none
  | .cWait c =>
    match s.callers.lookup c with
    | some k =>
      if k.pc = .sent ∧ s.entries.lookup k.run = some .pending then
        some { s with callers := setT s.callers c { k with pc := .waiting } }
      else none
    | none => none
  | .cTake c =>
    match s.callers.lookup c with
    | some k =>
      if k.pc = .sent ∨ k.pc = .waiting then
        match s.entries.lookup k.run with
        | some (.result v) =>
          some { s with entries := delT s.entries k.run,
                        callers := setT s.callers c { k with pc := .returned v } }
        | some .pending => none
        | none =>
          if k.pc = .sent then some { s with callers := setT s.callers c { k with pc := .returned .err } }
          else none
      else none
    | none => none
  | .cReadV1 c =>
    match s.callers.lookup c, s.s2c with
    | some k, it :: rest =>
      if k.pc = .sentV1 then
        let s2c' := if it.sticky then s.s2c else rest
        match it with
        | .v1done x =>
          some { s with s2c := s2c', consumed := s.consumed ++ [(k.run, x)],
                        callers := setT s.callers c { k with pc := .returned (.ok x) } }
        | _ => some { s with s2c := s2c', callers := setT s.callers c { k with pc := .returned .err } }
      else none
    | _, _ => none
  | .cRet c res =>
    match s.callers.lookup c with
    | some k =>
      if k.pc = .returned res then
        some { s with callers := setT s.callers c { k with pc := .finished }, retd := s.retd ++ [c] }
      else none
    | none => none
  | _ => none

/-- `executeWriteLoop` -/
def stepWriter (s : State) : Label → Option State
  | .wCheck w =>
    match s.writers.lookup w with
    | some .init =>
      -- the opening "is the client closed?" check. Whether it reads `done` under the mutex or the
      -- context without it, finding the client closed is the same as entering the select and
      -- leaving through the cancelled context at once (`wCancel`; Close cancels before it sets
      -- `done`), so the check itself is just the move to the select.
      some { s with writers := setT s.writers w .select }
    | _ => none
  | .wRecv w r =>
    match s.writers.lookup w with
    | some .select =>
      -- a signal with a blank run ID is logged and ends the writer
      if r = 0 then some { s with writers := delT s.writers w }
      else some { s with writers := setT s.writers w (.have r) }
    | _ => none
  | .wClosed w =>
    match s.writers.lookup w with
    | some .select => some { s with writers := delT s.writers w }
    | _ => none
  | .wCancel w =>
    match s.writers.lookup w with
    | some .select => if s.cancelled then some { s with writers := delT s.writers w } else none
    | _ => none
  | .wSend w ok =>
    match s.writers.lookup w with
    | some (.have r) =>
      if ok then some { s with c2s := s.c2s ++ [.signal r], writers := setT s.writers w .select }
      else some { s with writers := delT s.writers w }
    | _ => none
  | _ => none

/-- `Close` -/
def stepCloser (s : State) : Label → Option State
  | .clCall => if s.closer = .idle then some { s with closer := .called } else none
  | .clCancel =>
    if s.closer = .called then some { s with closer := .cancelled, cancelled := true } else none
  | .clMark =>
    if s.closer = .cancelled then
      if s.done then some { s with closer := .returned true }
      else some { s with closer := .marked, done := true }
    else none
  | .clSend ok =>
    if s.closer = .marked ∧ s.ver > 1 then
      if ok then some { s with closer := .sentDone, c2s := s.c2s ++ [.clientDone] }
      else some { s with closer := .failed }
    else none
  | .clRet =>
    if wgZero s then
      -- `wg.Wait()` (after client-done, or directly for ATP v1) or the graceful error return
      if s.closer = .sentDone ∨ (s.closer = .marked ∧ s.ver ≤ 1) then some { s with closer := .returned true }
      else if s.closer = .failed then some { s with closer := .returned false }
      else none
    else none
  | .clTimeout =>
    if s.closer = .failed ∧ wgZero s = false then some { s with closer := .returned false } else none
  | _ => none

/-- may a correct server send `m` now? (`ended` is checked by the caller) -/
def srvMay (v : Srv) : Msg → Bool
  | .workDone r x => x.isSome && v.owed.contains r
  | .signal r _ => v.owed.contains r
  | .error r sf vf => vf || !sf || r == 0 || v.owed.contains r
  | .unknown _ => true

/-- the peer -/
def stepEnv (s : State) : Label → Option State
  | .sRecv =>
    match s.c2s with
    | [] => none
    | m :: rest =>
      let srv' : Srv := match m with
        | .workStart r => if s.srv.gotDone then s.srv else { s.srv with owed := s.srv.owed ++ [r] }
        | .clientDone => { s.srv with gotDone := true }
        | _ => s.srv
      some { s with c2s := rest, srv := srv' }
  | .sSend m =>
    if s.srv.ended = false ∧ srvMay s.srv m then
      match m with
      | .workDone r _ => some { s with s2c := s.s2c ++ [.msg m], srv := { s.srv with owed := s.srv.owed.erase r } }
      | .error r sf vf =>
        if vf then
          -- a server-fatal error is the server's last message; it then ends its output
          some { s with s2c := s.s2c ++ [.msg m, .eof], srv := { s.srv with owed := [], ended := true } }
        else if sf ∧ r ≠ 0 then
          some { s with s2c := s.s2c ++ [.msg m], srv := { s.srv with owed := s.srv.owed.erase r } }
        else some { s with s2c := s.s2c ++ [.msg m] }
      | _ => some { s with s2c := s.s2c ++ [.msg m] }
    else none
  | .sEnd =>
    if s.srv.ended = false ∧ s.srv.gotDone ∧ s.srv.owed = [] then
      some { s with s2c := s.s2c ++ [.eof], srv := { s.srv with ended := true } }
    else none
  | .envPut it =>
    if s.srv.ended = false then
      some { s with s2c := s.s2c ++ [it], srv := { s.srv with ended := it.sticky } }
    else none
  -- a write side that fails independently: the bytes of a write reported as failed reach the peer
  | .envLate m => some { s with c2s := s.c2s ++ [m] }
  | _ => none

/-- which thread owns a label -/
inductive Owner where
  | rs | caller | loop | writer | closer | env
deriving DecidableEq, Repr

def Label.owner : Label → Owner
  | .rsCall | .rsSend _ | .rsRead | .rsRet => .rs
  | .call .. | .cReject _ | .cSpawnW .. | .cRegister .. | .cSend .. | .cAbandon _ | .cWait _ | .cTake _
  | .cReadV1 _ | .cRet .. => .caller
  | .lRead _ | .lDeliver _ | .lCheck _ | .lExit _ => .loop
  | .wCheck _ | .wRecv .. | .wClosed _ | .wCancel _ | .wSend .. => .writer
  | .clCall | .clCancel | .clMark | .clSend _ | .clRet | .clTimeout => .closer
  | .sRecv | .sSend _ | .sEnd | .envPut _ | .envLate _ => .env

/-- the executable step function of both variants -/
def stepG (pinned : Bool) (s : State) (l : Label) : Option State :=
  match l.owner with
  | .rs => stepRs s l
  | .caller => stepCaller s l
  | .loop => stepLoop pinned s l
  | .writer => stepWriter s l
  | .closer => stepCloser s l
  | .env => stepEnv s l

/-- the current code -/
def step? (s : State) (l : Label) : Option State := stepG false s l

/-- the code before commit 81c38a0 (exit decision and flag clear in separate critical sections) -/
def stepPinned? (s : State) (l : Label) : Option State := stepG true s l

def Step (s : State) (l : Label) (s' : State) : Prop := step? s l = some s'
def StepPinned (s : State) (l : Label) (s' : State) : Prop := stepPinned? s l = some s'

instance (s l s') : Decidable (Step s l s') := by unfold Step; exact inferInstance

/-- run a list of labels -/
def runG (pinned : Bool) : State → List Label → Option State
  | s, [] => some s
  | s, l :: ls => match stepG pinned s l with
    | some s' => runG pinned s' ls
    | none => none

def run (s : State) (ls : List Label) : Option State := runG false s ls

/-- Labels a healthy connection can produce in state `s`: the peer is a correct server (no arbitrary
    stream items), writes only fail once the server has received client-done and stopped
    reading, and the caller keeps to the documented contract (`ReadSchema` first; no `Execute`
    begins after `Close` has begun). -/
def healthy (s : State) : Label → Bool
  -- the handshake: one supported hello with a usable schema in answer to the start-output message
  | .envPut (.hello v ok) => ok && (v == 1 || v == 3) && decide (s.rs = .sentNil) && s.s2c.isEmpty
  -- ATP v1 sessions: bare work-done messages
  | .envPut (.v1done _) => decide (s.ver ≤ 1)
  | .envPut _ => false
  | .envLate _ => false
  -- the caller's side of the contract: ReadSchema first, no Execute after Close has begun
  | .call .. => decide (s.rs = .finished) && decide (s.closer = .idle)
  | .rsSend ok => ok
  | .clSend ok => ok
  | .cSend _ ok => ok || s.srv.gotDone
  | .wSend _ ok => ok || s.srv.gotDone
  | _ => true

/-- reachable states (any environment) -/
inductive Reachable : State → Prop where
  | init : Reachable init
  | step {s l s'} : Reachable s → Step s l s' → Reachable s'

/-- reachable states of the pre-repair variant -/
inductive ReachablePinned : State → Prop where
  | init : ReachablePinned init
  | step {s l s'} : ReachablePinned s → StepPinned s l s' → ReachablePinned s'

/-- reachable states on a healthy connection -/
inductive ReachableH : State → Prop where
  | init : ReachableH init
  | step {s l s'} : ReachableH s → Step s l s' → healthy s l = true → ReachableH s'

theorem ReachableH.reachable {s} (h : ReachableH s) : Reachable s := by
  induction h with
  | init => exact .init
  | step _ hs _ ih => exact .step ih hs

theorem run_reachable {s ls s'} (h : Reachable s) (hr : run s ls = some s') : Reachable s' := by
  induction ls generalizing s with
  | nil => simp [run, runG] at hr; exact hr ▸ h
  | cons l ls ih =>
    simp only [run, runG] at hr
    cases hst : stepG false s l with
    | none => simp [hst] at hr
    | some s1 =>
      simp only [hst] at hr
      exact ih (.step h hst) hr

end Arca.AtpClient
