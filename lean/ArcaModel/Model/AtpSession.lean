/-
  One ATP session at message level, for C05 (transparency / routing): callers issuing `Execute`
  through one client, the two directions of the transport, the server's running steps.

  Payloads are opaque terms tagged with their run ID. `input r` is the (CBOR-normalised) input of
  run `r`, `callStep` is what `CallableSchema.CallStep` makes of an input (an output ID with data,
  or the step's error - input that the schema rejects is just another value of `Res`), so
  `spec r = callStep (input r)` is what `Execute` for run `r` has to return.

  The transport delivers each direction in order; fragmentation and coalescing of the byte stream
  are invisible at this level (a message is delivered when its last byte is), which is what "with
  arbitrary chunking" means here: `deliverC2S` / `deliverS2C` may happen at any time.
  Writer atomicity - a message is appended to a stream as a whole - is an ASSUMPTION of this model:
  on the client side every Encode happens under the client mutex (`sendCBOR`), on the server side
  under the encoder mutex; `Props/C07Facts.lean` (F7) checks the latter syntactically on the
  working tree.

  How this abstracts the server model (`Model/AtpServer.lean`): `deliverC2S` is `loopRead` accepting
  a work-start (a goroutine is spawned), `finish` is that goroutine's terminal message (`gWrite`, or
  `gSend` followed by the handler's `hEmit`); `C07_terminal_once` is what justifies one `finish`
  per accepted work-start.

  Core Lean only.
-/
namespace Arca.AtpSession

abbrev Run := Nat

structure State (Inp Res : Type) where
  /-- run IDs for which `Execute` registered a result entry (distinct: the client refuses a run ID
      that already has an entry) -/
  issued : List Run
  /-- registered, work-start not yet written -/
  unsent : List Run
  /-- client-to-server stream: work-start messages in flight -/
  c2s : List (Run × Inp)
  /-- accepted work-starts whose step is running on the server -/
  srv : List (Run × Inp)
  /-- server-to-client stream: terminal messages (work-done, or the step's error) in flight -/
  s2c : List (Run × Res)
  /-- result entries without a result -/
  pending : List Run
  /-- result entries whose result has been set and not yet taken -/
  ready : List (Run × Res)
  /-- `Execute` calls that have returned, with what they returned -/
  returned : List (Run × Res)

def State.init {Inp Res : Type} : State Inp Res := ⟨[], [], [], [], [], [], [], []⟩

inductive Act where
  /-- `prepareResultChannels` of a new `Execute` -/
  | register (r : Run)
  /-- `sendCBOR(work-start)` under the client mutex -/
  | send (r : Run)
  /-- the transport hands the next client message to the server, which starts the step -/
  | deliverC2S
  /-- the `i`-th running step finishes; its terminal message is written under the encoder mutex -/
  | finish (i : Nat)
  /-- the client's read loop decodes the next server message and stores the result -/
  | deliverS2C
  /-- the waiting `Execute` takes its result, deletes the entry and returns -/
  | take (r : Run)
deriving DecidableEq, Repr

section
variable {Inp Res : Type} (input : Run → Inp) (callStep : Inp → Res)

/-- what `Execute` for run `r` has to return -/
def spec (r : Run) : Res := callStep (input r)

def setReady (ready : List (Run × Res)) (r : Run) (y : Res) : List (Run × Res) :=
  ready.map fun e => if e.1 = r then (r, y) else e

def step? (s : State Inp Res) : Act → Option (State Inp Res)
  | .register r =>
    if r ∈ s.issued then none
    else some { s with issued := r :: s.issued, unsent := r :: s.unsent, pending := r :: s.pending }
  | .send r =>
    if r ∈ s.unsent then some { s with unsent := s.unsent.erase r, c2s := s.c2s ++ [(r, input r)] }
    else none
  | .deliverC2S =>
    match s.c2s with
    | m :: rest => some { s with c2s := rest, srv := s.srv ++ [m] }
    | [] => none
  | .finish i =>
    match s.srv[i]? with
    | some (r, x) => some { s with srv := s.srv.eraseIdx i, s2c := s.s2c ++ [(r, callStep x)] }
    | none => none
  | .deliverS2C =>
    match s.s2c with
    | (r, y) :: rest =>
      if r ∈ s.pending then
        some { s with s2c := rest, pending := s.pending.erase r, ready := s.ready ++ [(r, y)] }
      else
        -- the entry already has a result (it is overwritten) or does not exist (logged, dropped)
        some { s with s2c := rest, ready := setReady s.ready r y }
    | [] => none
  | .take r =>
    match s.ready.find? (fun e => e.1 = r) with
    | some (_, y) => some { s with ready := s.ready.filter (fun e => e.1 ≠ r), returned := s.returned ++ [(r, y)] }
    | none => none

inductive Reachable : State Inp Res → Prop where
  | init : Reachable State.init
  | step {s s' : State Inp Res} {a : Act} : Reachable s → step? input callStep s a = some s' → Reachable s'

end

/-! ### the legacy v1 framing: no run IDs on the wire, one `Execute` at a time -/

structure V1State (Inp Res : Type) where
  /-- the `Execute` in progress -/
  cur : Option Run
  /-- it has written its work-start -/
  sent : Bool
  c2s : List Inp
  /-- the legacy server is running the step on this input -/
  srv : Option Inp
  s2c : List Res
  returned : List (Run × Res)

def V1State.init {Inp Res : Type} : V1State Inp Res := ⟨none, false, [], none, [], []⟩

inductive V1Act where
  | call (r : Run)
  | send
  | deliverC2S
  | finish
  /-- `getResultV1`: the caller itself decodes the next message and returns it -/
  | recv
deriving DecidableEq, Repr

section
variable {Inp Res : Type} (input : Run → Inp) (callStep : Inp → Res)

def v1step? (s : V1State Inp Res) : V1Act → Option (V1State Inp Res)
  | .call r => if s.cur.isNone then some { s with cur := some r, sent := false } else none
  | .send =>
    match s.cur, s.sent with
    | some r, false => some { s with sent := true, c2s := s.c2s ++ [input r] }
    | _, _ => none
  | .deliverC2S =>
    match s.c2s, s.srv with
    | x :: rest, none => some { s with c2s := rest, srv := some x }
    | _, _ => none
  | .finish =>
    match s.srv with
    | some x => some { s with srv := none, s2c := s.s2c ++ [callStep x] }
    | none => none
  | .recv =>
    match s.cur, s.sent, s.s2c with
    | some r, true, y :: rest => some { s with cur := none, sent := false, s2c := rest, returned := s.returned ++ [(r, y)] }
    | _, _, _ => none

inductive V1Reachable : V1State Inp Res → Prop where
  | init : V1Reachable V1State.init
  | step {s s' : V1State Inp Res} {a : V1Act} : V1Reachable s → v1step? input callStep s a = some s' →
      V1Reachable s'

end

end Arca.AtpSession
