import Lean.Data.Json
import ArcaModel.Model.Dispatch
/-
  Line protocol of the C13 race search (harness sub-command `race`). Executable glue only.

  A RACE_TRIAL line describes one trial of the dynamic search (one fresh schema instance, `goroutines`
  goroutines released together, `calls` mixed operations); there is nothing for the model to compute:
  the model's prediction for every trial is "each call returns what it returns alone and no data race is
  reported", which the implementation side reports as {"r":"ok"} and otherwise records as a finding. The
  handler only checks that the trial lies in the property's range (2..16 goroutines, at least one call).
  The deciding parts of C13 are the table theorems of Props/C13.lean and the findings file.
-/
open Lean

namespace Arca.Dispatch

def handleRaceTrial (j : Json) : R Json := do
  let g ← (← field j "goroutines").getNat?
  let c ← (← field j "calls").getNat?
  if 2 ≤ g && g ≤ 16 && 1 ≤ c then
    return Json.mkObj [("r", "ok")]
  else
    return Json.mkObj [("r", "out-of-range")]

/-- handler of the race-search trial lines -/
def raceHandler (op : String) (j : Json) : Option (R Json) :=
  match op with
  | "RACE_TRIAL" => some (handleRaceTrial j)
  | _ => none

end Arca.Dispatch
