import Lean.Data.Json
import ArcaModel.Model.Dispatch
import ArcaModel.Model.Describe
/-
  Line-protocol handler of the self-description model (C09, C10).
  Ops: DESCRIBE (schema tree -> wire form), REBUILD (wire form -> schema tree -> wire form),
  CBORNORM (value -> value after one CBOR round trip).  Executable glue only.
-/
open Lean

namespace Arca.Dispatch
namespace Desc

def optStrField (j : Json) (k : String) : Option String :=
  match fieldOpt j k with
  | some (.str s) => some s
  | _ => none

def decDisp (j : Json) : Disp := ⟨optStrField j "name", optStrField j "desc", optStrField j "icon"⟩

def optDisp (j : Json) (k : String) : Option Disp := (fieldOpt j k).map decDisp

mutual
partial def decDTy (j : Json) : R DTy := do
  let t ← getStr (← field j "t")
  match t with
  | "int" => return .int (← optDec j "min") (← optDec j "max") (← optUnits j)
  | "float" => return .float (← optHex j "min") (← optHex j "max") (← optUnits j)
  | "str" => return .str (← optDec j "min") (← optDec j "max") (optStrField j "pat")
  | "bool" => return .bool
  | "pattern" => return .pattern
  | "any" => return .any
  | "enumInt" =>
    let a ← arrField j "dvals"
    let vs ← a.toList.mapM fun e => do
      let p ← e.getArr?
      return (← parseDec (← getStr p[0]!), decDisp p[1]!)
    return .enumInt vs (← optUnits j)
  | "enumStr" =>
    let a ← arrField j "dvals"
    let vs ← a.toList.mapM fun e => do
      let p ← e.getArr?
      return (← getStr p[0]!, decDisp p[1]!)
    return .enumStr vs
  | "list" => return .list (← decDTy (← field j "item")) (← optDec j "min") (← optDec j "max")
  | "map" =>
    return .map (← decDTy (← field j "k")) (← decDTy (← field j "v")) (← optDec j "min") (← optDec j "max")
  | "obj" => return .obj (← decDObj j)
  | "oneOf" =>
    let intKey := getBool j "intKey"
    let ms ← arrField j "members"
    let members ← ms.toList.mapM fun e => do
      let p ← e.getArr?
      return (← decKey intKey p[0]!, ← decDTy p[1]!)
    return .oneOf intKey (← getStr (← field j "disc")) (getBool j "inlined") members
  | "ref" => return .ref (← getStr (← field j "id")) ((optStrField j "ns").getD "") (optDisp j "disp")
  | "scope" =>
    let os ← arrField j "objs"
    let objs ← os.toList.mapM fun e => do
      let p ← e.getArr?
      return (← getStr p[0]!, ← decDObj p[1]!)
    return .scope objs (← getStr (← field j "root"))
  | _ => throw s!"bad type {t}"
partial def decDObj (j : Json) : R DObj := do
  let id ← getStr (← field j "id")
  let ps ← arrField j "props"
  let props ← ps.toList.mapM fun e => do
    let p ← e.getArr?
    let name ← getStr p[0]!
    let pj := p[1]!
    let ty ← decDTy (← field pj "ty")
    let dflt : Option String := match fieldOpt pj "default" with
      | some d => optStrField d "text"
      | none => none
    return (name, DProp.mk ty (optDisp pj "disp") (getBool pj "required") (← strList pj "requiredIf")
      (← strList pj "requiredIfNot") (← strList pj "conflicts") dflt (← strList pj "examples")
      (getBool pj "disabled") (optStrField pj "disabledReason"))
  return .mk id (getBool j "unenforced") props
end

def decDSignal (j : Json) : R DSignal := do
  return ⟨← getStr (← field j "id"), ← decDTy (← field j "data"), optDisp j "disp"⟩

def decKeyed {α} (f : Json → R α) (j : Json) (k : String) : R (List (String × α)) := do
  let a ← arrField j k
  a.toList.mapM fun e => do
    let p ← e.getArr?
    return (← getStr p[0]!, ← f p[1]!)

def decDStep (j : Json) : R DStep := do
  let outputs ← decKeyed (fun o => do
    return (⟨← decDTy (← field o "schema"), optDisp o "disp", getBool o "error"⟩ : DOutput)) j "outputs"
  return ⟨← getStr (← field j "id"), ← decDTy (← field j "input"), outputs,
          ← decKeyed decDSignal j "handlers", ← decKeyed decDSignal j "emitters", optDisp j "disp"⟩

def decDSchema (j : Json) : R DSchema := decKeyed decDStep j "steps"

/-- the table of `encoding/json` decodings shipped with a case: `[[text, value|null], ...]` -/
def decJD (j : Json) : R JD := do
  let tab : List (String × Option V) ← match fieldOpt j "jd" with
    | none => pure []
    | some a => do
      (← a.getArr?).toList.mapM fun e => do
        let p ← e.getArr?
        let v ← match p[1]! with
          | .null => pure none
          | w => do pure (some (← decV (← field w "v")))
        return (← getStr p[0]!, v)
  return fun s => match tab.find? (·.1 == s) with
    | some (_, r) => r
    | none => none

def caseExt (j : Json) : R Ext :=
  match fieldOpt j "ext" with
  | some e => decExt e
  | none => decExt (Json.mkObj [])

def caseFuel (j : Json) : Nat :=
  match fieldOpt j "fuel" with
  | some (.num n) => n.mantissa.toNat
  | _ => 2000

def encOutV (o : Out V) : Json := encOut o

def handleDescribe (j : Json) : R Json := do
  let x ← caseExt j
  match fieldOpt j "dplugin" with
  | some p =>
    let s ← decDSchema p
    if describableSchema x s then return encOutV (.ok (describeSchema s)) else return encOutV .plain
  | none =>
    let s ← decDTy (← field j "dschema")
    if describable x s then return encOutV (.ok (describe s)) else return encOutV .plain

def mapOut {α β} (f : α → β) : Out α → Out β
  | .ok a => .ok (f a)
  | .err e => .err e
  | .panic => .panic
  | .fuel => .fuel

def handleRebuild (j : Json) : R Json := do
  let x ← caseExt j
  let jd ← decJD j
  let fuel := caseFuel j
  let w ← decV (← field j "v")
  let mode := (optStrField j "mode").getD "scope"
  match mode with
  | "scope" => return encOutV (mapOut describe (unserializeScope x jd fuel w))
  | "rawscope" => return encOutV (mapOut describe (rebuild x fuel w))
  | "schema" => return encOutV (mapOut describeSchema (unserializeSchema x jd fuel w))
  | "rawschema" => return encOutV (mapOut describeSchema (rebuildSchema x fuel w))
  | m => throw s!"bad mode {m}"

def handleCborNorm (j : Json) : R Json := do
  let w ← decV (← field j "v")
  return encOutV (.ok (cborNorm w))

end Desc

/-- handler of the self-description ops -/
def describeHandler (op : String) (j : Json) : Option (R Json) :=
  match op with
  | "DESCRIBE" => some (Desc.handleDescribe j)
  | "REBUILD" => some (Desc.handleRebuild j)
  | "CBORNORM" => some (Desc.handleCborNorm j)
  | _ => none

end Arca.Dispatch
