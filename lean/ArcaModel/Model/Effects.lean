/-
  Effect tables (property C13) - the format of `Gen/Effects.lean`, which `/verif/effects` regenerates from
  the working tree of the SDK, and the two checkers the C13 table theorems evaluate:

    closed    the set `reach` contains the roots and is closed under the extracted call edges
              (so it contains everything reachable: `closed_sound`);
    raceFree  every write to memory shared between calls, and every read of a location that has a
              guarded write, in a function of `reach` is dominated by a lock (or is inside a
              `sync.Once.Do` body), or is on the allow-list below with its reason; all guarded
              accesses of one location hold the same mutex; no function of
              `reach` starts a goroutine; every library function that is handed a reference to
              shared memory is known not to write through it.

  What the table MEANS (which writes target shared memory, which lock dominates them) is the
  extractor's classification (/verif/effects/origin.go) and is trusted; the checkers only evaluate it.
  Functions are numbered by their position in `names`; sets of functions are `Nat` bit masks, so that
  the kernel evaluates membership with GMP arithmetic (`Nat.testBit`, `Nat.land`).
  Core Lean only.
-/
namespace Arca.Effects

/-- One access to shared memory. `kind`: store | mapupdate | send | close | delete | copy | append |
    clear | "extern <library function>" for writes, read | copy (a whole struct is copied) for reads.
    `guard`: 0 none, 1 a mutex of the same receiver is held, 2 a package-level mutex is held,
    3 inside the function passed to a `sync.Once.Do`. `loc` is the struct field ("Struct.field") or
    global the accessed memory lives in or hangs off ("" if none), `lock` the mutex held ("Struct.field",
    "global name", "once"; "" if none). `pos` is informative only. -/
structure Access where
  fn : Nat
  kind : String
  target : String
  guard : Nat
  loc : String
  lock : String
  pos : String
deriving Repr

structure Table where
  names : List String
  /-- call successors of function `i`: bit mask at position `i` -/
  succ : List Nat
  roots : List Nat
  reach : Nat
  /-- functions containing a `go` statement -/
  spawns : Nat
  writes : List Access
  /-- reads of the locations that have a guarded write -/
  reads : List Access
  externs : List String

@[inline] def inSet (m i : Nat) : Bool := Nat.testBit m i

def succOf (t : Table) (a : Nat) : Nat := t.succ.getD a 0

/-- the extracted call edge `a → b` -/
def edge (t : Table) (a b : Nat) : Bool := inSet (succOf t a) b

def closedFrom (reach : Nat) : Nat → List Nat → Bool
  | _, [] => true
  | i, s :: rest => (!(inSet reach i) || Nat.land s reach == s) && closedFrom reach (i + 1) rest

/-- the roots are in `reach`, and every successor of a member of `reach` is in `reach` -/
def closed (t : Table) : Bool :=
  t.roots.all (inSet t.reach) && closedFrom t.reach 0 t.succ

/-- reachability over the extracted edges -/
inductive Reachable (t : Table) : Nat → Prop
  | root {r : Nat} : r ∈ t.roots → Reachable t r
  | step {a b : Nat} : Reachable t a → edge t a b = true → Reachable t b

theorem closedFrom_get (reach : Nat) :
    ∀ (l : List Nat) (i : Nat), closedFrom reach i l = true →
      ∀ k, inSet reach (i + k) = true → Nat.land (l.getD k 0) reach = l.getD k 0 := by
  intro l
  induction l with
  | nil => intro i _ k _; simp
  | cons s rest ih =>
    intro i h k hk
    simp only [closedFrom, Bool.and_eq_true, Bool.or_eq_true, Bool.not_eq_true', beq_iff_eq] at h
    cases k with
    | zero =>
      simp only [Nat.add_zero] at hk
      rcases h.1 with h1 | h1
      · rw [h1] at hk; cases hk
      · simpa using h1
    | succ k =>
      have := ih (i + 1) h.2 k (by rwa [Nat.add_assoc, Nat.add_comm 1 k])
      simpa using this

/-- a closed `reach` contains every function reachable from the roots -/
theorem closed_sound (t : Table) (h : closed t = true) :
    ∀ n, Reachable t n → inSet t.reach n = true := by
  simp only [closed, Bool.and_eq_true, List.all_eq_true] at h
  intro n hn
  induction hn with
  | root hr => exact h.1 _ hr
  | @step a b _ hab ih =>
    have hs := closedFrom_get t.reach t.succ 0 h.2 a (by simpa using ih)
    simp only [edge, succOf, inSet] at hab
    rw [← hs] at hab
    have : (t.succ.getD a 0 &&& t.reach).testBit b = true := hab
    rw [Nat.testBit_and] at this
    simp only [Bool.and_eq_true] at this
    exact this.2

/-- an allow-list entry: accesses of `kind` to `target` in function `fn` (`"*"`: any function) -/
structure Allow where
  fn : String
  kind : String
  target : String
  reason : String

def allowed (al : List Allow) (t : Table) (a : Access) : Bool :=
  al.any fun e =>
    (e.fn == "*" || e.fn == t.names.getD a.fn "") && e.kind == a.kind && e.target == a.target

def accessOk (al : List Allow) (t : Table) (a : Access) : Bool :=
  !(inSet t.reach a.fn) || a.guard != 0 || allowed al t a

/-- all guarded accesses (in reachable functions) of one location hold the same mutex -/
def locksConsistent (t : Table) : Bool :=
  let g := (t.writes ++ t.reads).filter fun a => inSet t.reach a.fn && a.guard != 0
  g.all fun a => g.all fun b => a.loc != b.loc || a.lock == b.lock

def raceFreeWith (al : List Allow) (ro : List String) (t : Table) : Bool :=
  t.writes.all (accessOk al t) && t.reads.all (accessOk al t)
    && locksConsistent t
    && Nat.land t.spawns t.reach == 0
    && t.externs.all (fun e => ro.contains e)
    && t.succ.length == t.names.length

/-- Accesses accepted without a lock, each with the reason why it cannot race.
    (Function and target names as the extractor prints them: `go run . -explain`.) -/
def allowList : List Allow := [
  { fn := "(*schema.ConstraintError).AddPathSegment", kind := "store", target := "c.Path",
    reason := "the receiver is the error value of the failing call itself: every ConstraintError is \
      allocated (&ConstraintError{...}) by the operation that reports it and travels up that call's \
      stack only; no schema stores an error" },
  { fn := "(*schema.ObjectSchema).unserializeToStruct$1", kind := "extern (reflect.Value).Set",
    target := "(reflect.Value).Elem()",
    reason := "the value set is the pointer just made by reflect.New in this closure" },
  { fn := "(*schema.ObjectSchema).unserializeToStruct$1", kind := "extern (reflect.Value).Set",
    target := "^field",
    reason := "`field` is a view into the struct made by reflect.New at the top of the enclosing \
      unserializeToStruct call (a captured local of that call)" },
  { fn := "(*schema.ObjectSchema).unserializeToStruct$1", kind := "extern (reflect.Value).Set",
    target := "^f",
    reason := "`f` is `field` or a pointer made by reflect.New: memory of the enclosing call" },
  { fn := "(*schema.ObjectSchema).unserializeToStruct", kind := "extern (reflect.Value).Set",
    target := "local",
    reason := "the embedded struct pointer that is allocated is a field of the struct made by \
      reflect.New at the top of this call (the extractor itself classifies the target as local)" },
  { fn := "(schema.OneOfSchema[int64]).UnserializeType[int64]", kind := "mapupdate",
    target := "invoke Unserialize()",
    reason := "the map is the result of Object.Unserialize of the selected member; every Object of the \
      SDK (ObjectSchema, and RefSchema/ScopeSchema/typed objects delegating to it) returns the map \
      convertData allocates in that call" },
  { fn := "(schema.OneOfSchema[string]).UnserializeType[string]", kind := "mapupdate",
    target := "invoke Unserialize()",
    reason := "as for the int64 instance" },
  { fn := "(schema.OneOfSchema[int64]).SerializeType[int64]", kind := "mapupdate",
    target := "invoke Serialize()",
    reason := "the map is the result of Object.Serialize of the member, which serializeMap / \
      serializeStruct allocate in that call" },
  { fn := "(schema.OneOfSchema[string]).SerializeType[string]", kind := "mapupdate",
    target := "invoke Serialize()",
    reason := "as for the int64 instance" },
  { fn := "*", kind := "copy", target := "t{ObjectSchema.defaultValues}",
    reason := "value-receiver methods of TypedObjectSchema copy the embedded ObjectSchema; a \
      TypedObjectSchema is only built by NewTypedObject, which fills defaultValues at construction, so \
      GetDefaults never writes the field of such an object" }
]

/-- Library functions that may be handed references to shared memory: none writes through its
    arguments (reflect.Value setters, sort.*, json/cbor/yaml decoding, errors.As, reflect.Copy are
    classified as writes by the extractor instead). `(reflect.Value).Call` runs a method found by
    MethodByName; those methods are call-graph successors of the caller. -/
def readOnlyExterns : List String := [
  "(*regexp.Regexp).FindStringSubmatch", "(*regexp.Regexp).MatchString", "(*regexp.Regexp).String",
  "(reflect.Value).Bool", "(reflect.Value).Call", "(reflect.Value).CanConvert", "(reflect.Value).Convert",
  "(reflect.Value).Elem", "(reflect.Value).FieldByIndex", "(reflect.Value).FieldByName",
  "(reflect.Value).Float", "(reflect.Value).Index", "(reflect.Value).Int", "(reflect.Value).Interface",
  "(reflect.Value).IsNil", "(reflect.Value).IsValid", "(reflect.Value).Kind", "(reflect.Value).Len",
  "(reflect.Value).MapIndex", "(reflect.Value).MapKeys", "(reflect.Value).MethodByName",
  "(reflect.Value).String", "(reflect.Value).Type", "(reflect.Value).Uint", "(reflect.Value).IsZero",
  "(reflect.Value).Field", "(reflect.Value).NumField", "(reflect.Value).MapRange", "(reflect.Value).CanInterface",
  "(reflect.Value).Pointer", "(reflect.Value).CanSet",
  "maps.Clone", "slices.Clone", "reflect.DeepEqual", "reflect.Indirect", "reflect.MapOf", "reflect.New",
  "reflect.SliceOf", "reflect.TypeOf", "reflect.ValueOf", "strings.Join", "fmt.Sprintf", "fmt.Errorf",
  "fmt.Sprint", "errors.Is", "errors.Unwrap"
]

def raceFree (t : Table) : Bool := raceFreeWith allowList readOnlyExterns t

end Arca.Effects
