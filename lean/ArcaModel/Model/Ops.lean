import ArcaModel.Model.Scalar
/-
  The four schema operations - Unserialize (U), Validate (V), Serialize (S) and data-mode
  ValidateCompatibility (C) - as one fuelled function `run` over the schema tree.
  Every branch mirrors the Go code path, including the paths that panic.
-/
namespace Arca

inductive Op where
  | U | V | S | C
deriving DecidableEq, Repr, Inhabited

/-! ### helpers on values -/

/-- `reflect.Value.Kind() == reflect.Slice`: elements as dynamic values -/
def V.sliceElems? (v : V) : Option (List V) :=
  match v with
  | .list xs => some xs
  | .bytes b => some (b.map fun (n : Nat) => V.int .uint8 (Int.ofNat n))
  | _ => none

def V.mapEntries? (v : V) : Option (MapShape × List (V × V)) :=
  match v with
  | .map sh kvs => some (sh, kvs)
  | _ => none

/-- `fmt.Sprintf("%v", key)` for the key kinds whose rendering the model knows -/
def fmtKey (v : V) : String :=
  match v.under with
  | .str s => s
  | .int _ n => fmtInt n
  | .bool b => if b then "true" else "false"
  | .nil => "<nil>"
  | _ => "?"

def V.key? (v : V) : Option Key :=
  match v.under with
  | .int _ n => some (.i n)
  | .str s => some (.s s)
  | _ => none

def checkLen (min max : Option Int) (n : Nat) : Out Unit :=
  match min with
  | some m => if m > (n : Int) then .cerr else
    match max with
    | some m => if m < (n : Int) then .cerr else .ok ()
    | none => .ok ()
  | none =>
    match max with
    | some m => if m < (n : Int) then .cerr else .ok ()
    | none => .ok ()

def checkInt (min max : Option Int) (n : Int) : Out Unit :=
  match min with
  | some m => if n < m then .cerr else
    match max with
    | some m => if n > m then .cerr else .ok ()
    | none => .ok ()
  | none =>
    match max with
    | some m => if n > m then .cerr else .ok ()
    | none => .ok ()

/-- float bounds as repaired: a declared bound rejects NaN -/
def checkFloat (min max : Option Nat) (b : Nat) : Out Unit :=
  match min with
  | some m => if !(F64.ge b m) then .cerr else
    match max with
    | some m => if !(F64.le b m) then .cerr else .ok ()
    | none => .ok ()
  | none =>
    match max with
    | some m => if !(F64.le b m) then .cerr else .ok ()
    | none => .ok ()

def checkStr (x : Ext) (min max : Option Int) (pat : Option String) (s : String) : Out Unit :=
  match checkLen min max s.utf8ByteSize with
  | .ok () =>
    match pat with
    | some p => if x.reMatch p s then .ok () else .cerr
    | none => .ok ()
  | o => o

/-- string keys of a `map[string]any`; the model's own invariant (`none` = ill-formed value) -/
def strKeys? : List (V × V) → Option (List (String × V))
  | [] => some []
  | (.str k, v) :: rest => (strKeys? rest).map ((k, v) :: ·)
  | _ => none

def lookupS {α} (k : String) : List (String × α) → Option α
  | [] => none
  | (k', v) :: rest => if k == k' then some v else lookupS k rest

def lookupI {α} (k : Int) : List (Int × α) → Option α
  | [] => none
  | (k', v) :: rest => if k == k' then some v else lookupI k rest

def hasKey {α} (k : String) (m : List (String × α)) : Bool := (lookupS k m).isSome

def eraseKey {α} (k : String) : List (String × α) → List (String × α)
  | [] => []
  | (k', v) :: rest => if k == k' then eraseKey k rest else (k', v) :: eraseKey k rest

/-- `m[k] = v` on an association list standing for a Go map -/
def setKey {α} (k : String) (v : α) : List (String × α) → List (String × α)
  | [] => [(k, v)]
  | (k', v') :: rest => if k == k' then (k, v) :: rest else (k', v') :: setKey k v rest

def toStrAny (m : List (String × V)) : V := .map .strAny (m.map fun (k, v) => (V.str k, v))

/-- the decoded default of a property, as `extractObjectDefaultValues` computes it;
    `some none` = the constructor panics -/
def PropT.defaultV (p : PropT) : Option (Option V) :=
  match p.default with
  | none => none
  | some d =>
    match d.d1 with
    | some v => some (some v)
    | none =>
      match p.ty with
      | .str _ _ _ => some d.d2
      | _ => some none

/-- `validateFieldInterdependencies` on the set of present keys -/
def interdeps (props : List (String × PropT)) (isSet : String → Bool) : Out Unit :=
  let rec go : List (String × PropT) → Out Unit
    | [] => .ok ()
    | (id, p) :: rest =>
      let bad : Bool :=
        if isSet id then p.conflicts.any isSet
        else p.required || p.requiredIf.any isSet ||
          (!p.requiredIfNot.isEmpty && !(p.requiredIfNot.any isSet))
      if bad then .cerrAt [id] else go rest
  go props

/-- traverse a list with index, stop at first non-ok -/
def forIdx (f : Nat → V → Out V) : Nat → List V → Out (List V)
  | _, [] => .ok []
  | i, x :: xs =>
    match f i x with
    | .ok y => match forIdx f (i + 1) xs with
      | .ok ys => .ok (y :: ys)
      | .err e => .err e
      | .panic => .panic
      | .fuel => .fuel
    | .err e => .err e
    | .panic => .panic
    | .fuel => .fuel

/-- traverse map entries, stop at first non-ok -/
def forKV (f : V → V → Out (V × V)) : List (V × V) → Out (List (V × V))
  | [] => .ok []
  | (k, v) :: rest =>
    match f k v with
    | .ok kv => match forKV f rest with
      | .ok kvs => .ok (kv :: kvs)
      | .err e => .err e
      | .panic => .panic
      | .fuel => .fuel
    | .err e => .err e
    | .panic => .panic
    | .fuel => .fuel

/-- traverse string-keyed entries, stop at first non-ok -/
def forSV (f : String → V → Out V) : List (String × V) → Out (List (String × V))
  | [] => .ok []
  | (k, v) :: rest =>
    match f k v with
    | .ok v' => match forSV f rest with
      | .ok kvs => .ok ((k, v') :: kvs)
      | .err e => .err e
      | .panic => .panic
      | .fuel => .fuel
    | .err e => .err e
    | .panic => .panic
    | .fuel => .fuel

/-- does an earlier entry have the same native key? (the repaired duplicate check) -/
def dupKey (kvs : List (V × V)) : Bool :=
  let rec go : List (V × V) → List Key → Bool
    | [], _ => false
    | (k, _) :: rest, seen =>
      match k.key? with
      | some key => if seen.contains key then true else go rest (key :: seen)
      | none => go rest seen
  go kvs []

/-- a new ConstraintError built from any error (`&ConstraintError{Message: ... err ...}`) -/
def rewrapC {α} : Out α → Out α
  | .err _ => .cerr
  | o => o

/-- a plain error built from any error (`fmt.Errorf("... %q", err)`) -/
def rewrapP {α} : Out α → Out α
  | .err _ => .plain
  | o => o

def unitV : V := .nil

/-- for Validate/compat results: keep only success -/
def done : Out V := .ok unitV

/-! ### any-schema -/

/-- `AnySchema.checkAndConvert` (fuelled on nesting depth) -/
def anyConvert : Nat → V → Out V
  | 0, _ => .fuel
  | fuel + 1, v =>
    match v.under with
    | .int k n =>
      if k == .int64 then .ok (.int .int64 n)
      else match v with
        | .named _ => .plain
        | _ => (intInputMapper none v).bind fun n => .ok (.int .int64 n)
    | .float k b =>
      match k with
      | .f64 => .ok (.float .f64 b)
      | .f32 => match v with
        | .named _ => .plain
        | _ => .ok (.float .f64 b)
    | .str s => .ok (.str s)
    | .bool b => .ok (.bool b)
    | .list xs =>
      (forIdx (fun i x => (anyConvert fuel x).addSeg ("[" ++ toString i ++ "]")) 0 xs).bind fun ys => .ok (.list ys)
    | .bytes b =>
      (forIdx (fun i x => (anyConvert fuel x).addSeg ("[" ++ toString i ++ "]")) 0
        (b.map fun (n : Nat) => V.int .uint8 (Int.ofNat n))).bind fun ys => .ok (.list ys)
    | .map _ kvs =>
      (forKV (fun k x =>
        ((anyConvert fuel k).addSeg ("{" ++ fmtKey k ++ "}")).bind fun k' =>
          ((anyConvert fuel x).addSeg ("[" ++ fmtKey k' ++ "]")).bind fun x' => .ok (k', x')) kvs).bind fun kvs' =>
        if dupKey kvs' then .cerr else .ok (.map .anyAny kvs')
    | _ => .cerr

/-- reflect kinds that matter for the any-schema's homogeneity check -/
def kindTag (v : V) : Nat :=
  match v.under with
  | .nil => 0
  | .bool _ => 1
  | .int k _ => 2 + (match k with
    | .int => 0 | .int8 => 1 | .int16 => 2 | .int32 => 3 | .int64 => 4
    | .uint => 5 | .uint8 => 6 | .uint16 => 7 | .uint32 => 8 | .uint64 => 9)
  | .float .f32 _ => 12
  | .float .f64 _ => 13
  | .str _ => 14
  | .bytes _ | .list _ => 15
  | .map _ _ => 16
  | .regex _ => 17
  | .opaque => 18
  | .named _ => 19

/-- `AnySchema.ValidateCompatibility` on data -/
def anyCompat : Nat → V → Out V
  | 0, _ => .fuel
  | fuel + 1, v =>
    match v with
    | .map ⟨.string, true⟩ kvs | .map ⟨.int64, true⟩ kvs =>
      (forKV (fun k e => (rewrapC (anyCompat fuel e)).bind fun _ => .ok (k, e)) kvs).bind fun _ => done
    | .map ⟨.any, true⟩ kvs =>
      (forKV (fun k e =>
        match k.under with
        | .int .int64 _ | .str _ =>
          if kvs.any (fun (k', _) => kindTag k' != kindTag k &&
              (match k'.under with | .int .int64 _ | .str _ => true | _ => false)) then .cerr
          else (rewrapC (anyCompat fuel e)).bind fun _ => .ok (k, e)
        | _ => .cerr) kvs).bind fun _ => done
    | .list xs =>
      (forIdx (fun _ e => rewrapC (anyCompat fuel e)) 0 xs).bind fun _ =>
        match xs with
        | [] => done
        | f :: rest => if rest.any (fun e => kindTag e != kindTag f) then .cerr else done
    | _ => (anyConvert (fuel + 1) v).bind fun _ => done

def Key.toV : Key → V
  | .i n => .int .int64 n
  | .s t => .str t

def Key.fmt : Key → String
  | .i n => fmtInt n
  | .s t => t

def lookupK {α} (k : Key) : List (Key × α) → Option α
  | [] => none
  | (k', v) :: rest => if k == k' then some v else lookupK k rest

/-- Go key type of the map a map schema unserializes to (`ReflectedType` of the key schema) -/
def Ty.keyTy : Ty → KeyTy
  | .int _ _ _ | .enumInt _ _ => .int64
  | .str _ _ _ | .enumStr _ => .string
  | _ => .other

/-- is the schema's `ReflectedType` the empty interface? -/
def Ty.reflectsAny : Ty → Bool
  | .any | .oneOf _ _ _ _ => true
  | _ => false

/-! ### the schema operations

Each schema kind has its own non-recursive function taking the recursive call `rec` (the
operations on sub-schemas, one unit of fuel lower) as a parameter; `run` ties the knot. -/

/-- the recursive call: operation, environment, sub-schema, value -/
abbrev Rec := Op → Env → Ty → V → Out V

def idxSeg (i : Nat) : String := "[" ++ toString i ++ "]"
def keySeg (k : V) : String := "{" ++ fmtKey k ++ "}"
def valSeg (k : V) : String := "[" ++ fmtKey k ++ "]"

def runInt (op : Op) (min max : Option Int) (units : Option Units) (v : V) : Out V :=
  match op with
  | .U => (rewrapC (intInputMapper units v)).bind fun n => (checkInt min max n).bind fun _ => .ok (.int .int64 n)
  | .C => (rewrapC (intInputMapper units v)).bind fun n => (checkInt min max n).bind fun _ => done
  | .V => (asInt v).bind fun n => (checkInt min max n).bind fun _ => done
  | .S => (asInt v).bind fun n => (checkInt min max n).bind fun _ => .ok (.int .int64 n)

/-- `floatInputMapper` -/
def floatInputMapper (x : Ext) (units : Option Units) : V → Out Nat
  | .str s => match units with
    | some u => match u.parseFloat x s with
      | some b => .ok b
      | none => .plain
    | none => match x.parseFloat s with
      | some b => .ok b
      | none => .plain
  | .int _ n => .ok (F64.ofInt n)
  | .float _ b => .ok b
  | .bool b => .ok (if b then F64.ofInt 1 else 0)
  | _ => .plain

def runFloat (x : Ext) (op : Op) (min max : Option Nat) (units : Option Units) (v : V) : Out V :=
  match op with
  | .U => (rewrapC (floatInputMapper x units v)).bind fun b => (checkFloat min max b).bind fun _ => .ok (.float .f64 b)
  | .C => (rewrapC (floatInputMapper x units v)).bind fun b => (checkFloat min max b).bind fun _ => done
  | .V => (asFloat v).bind fun b => (checkFloat min max b).bind fun _ => done
  | .S => (asFloat v).bind fun b => (checkFloat min max b).bind fun _ => .ok (.float .f64 b)

def runStr (x : Ext) (op : Op) (min max : Option Int) (pat : Option String) (v : V) : Out V :=
  match op with
  | .U => (rewrapC (stringInputMapper x v)).bind fun s => (checkStr x min max pat s).bind fun _ => .ok (.str s)
  | .C =>
    match v with
    | .str s => (checkStr x min max pat s).bind fun _ => done
    | _ => .cerr
  | .V => (asString v).bind fun s => (checkStr x min max pat s).bind fun _ => done
  | .S => (asString v).bind fun s => (checkStr x min max pat s).bind fun _ => .ok (.str s)

def runBool (op : Op) (v : V) : Out V :=
  match op with
  | .U => (boolInputMapper v).bind fun b => .ok (.bool b)
  | .C => (boolInputMapper v).bind fun _ => done
  | .V => (asBool v).bind fun _ => done
  | .S => (asBool v).bind fun b => .ok (.bool b)

def runPattern (x : Ext) (op : Op) (v : V) : Out V :=
  match op with
  | .U => (rewrapC (stringInputMapper x v)).bind fun s => if x.reCompiles s then .ok (.regex s) else .cerr
  | .V | .C =>
    match v with
    | .regex _ => done
    | _ => .cerr
  | .S =>
    match v with
    | .regex s => .ok (.str s)
    | _ => .cerr

def runEnumInt (op : Op) (vals : List Int) (units : Option Units) (v : V) : Out V :=
  match op with
  | .U => (rewrapC (intInputMapper units v)).bind fun n =>
      if vals.contains n then .ok (.int .int64 n) else .cerr
  | .S => (asInt v).bind fun n => if vals.contains n then .ok (.int .int64 n) else .cerr
  | .V | .C => (asInt v).bind fun n => if vals.contains n then done else .cerr

def runEnumStr (x : Ext) (op : Op) (vals : List String) (v : V) : Out V :=
  match op with
  | .U => (rewrapC (stringInputMapper x v)).bind fun s =>
      if vals.contains s then .ok (.str s) else .cerr
  | .S => (asString v).bind fun s => if vals.contains s then .ok (.str s) else .cerr
  | .V | .C => (asString v).bind fun s => if vals.contains s then done else .cerr

def runList (rec : Rec) (op : Op) (env : Env) (item : Ty) (min max : Option Int) (v : V) : Out V :=
  match v.sliceElems? with
  | none => .cerr
  | some xs =>
    match op with
    | .U =>
      (checkLen min max xs.length).bind fun _ =>
        (forIdx (fun i e => (rec .U env item e).addSeg (idxSeg i)) 0 xs).bind fun ys => .ok (.list ys)
    | .V =>
      (checkLen min max xs.length).bind fun _ =>
        (forIdx (fun i e => (rec .V env item e).addSeg (idxSeg i)) 0 xs).bind fun _ => done
    | .S =>
      (checkLen min max xs.length).bind fun _ =>
        (forIdx (fun i e => (rec .V env item e).addSeg (idxSeg i)) 0 xs).bind fun _ =>
          (forIdx (fun i e => (rec .S env item e).addSeg (idxSeg i)) 0 xs).bind fun ys => .ok (.list ys)
    | .C =>
      (forIdx (fun i e => (rec .C env item e).addSeg (idxSeg i)) 0 xs).bind fun _ => done

/-- one entry of a map under operation `op`: key with `{k}` segment, value with `[k]` segment -/
def entryKV (rec : Rec) (op : Op) (env : Env) (kt vt : Ty) (k e : V) : Out (V × V) :=
  ((rec op env kt k).addSeg (keySeg k)).bind fun k' =>
    ((rec op env vt e).addSeg (valSeg k)).bind fun e' => .ok (k', e')

def runMap (rec : Rec) (op : Op) (env : Env) (kt vt : Ty) (min max : Option Int) (v : V) : Out V :=
  match v.mapEntries? with
  | none => .cerr
  | some (_, kvs) =>
    (checkLen min max kvs.length).bind fun _ =>
    match op with
    | .U =>
      (forKV (entryKV rec .U env kt vt) kvs).bind fun kvs' =>
        if dupKey kvs' then .cerr else .ok (.map ⟨kt.keyTy, vt.reflectsAny⟩ kvs')
    | .V => (forKV (entryKV rec .V env kt vt) kvs).bind fun _ => done
    | .C => (forKV (entryKV rec .C env kt vt) kvs).bind fun _ => done
    | .S =>
      (forKV (entryKV rec .V env kt vt) kvs).bind fun _ =>
        (forKV (entryKV rec .S env kt vt) kvs).bind fun kvs' => .ok (.map .anyAny kvs')

/-- defaults of absent properties are appended (`convertData`, second loop) -/
def applyDefaults : List (String × PropT) → List (String × V) → Out (List (String × V))
  | [], m => .ok m
  | (id, p) :: rest, m =>
    if hasKey id m then applyDefaults rest m else
    match p.defaultV with
    | none => applyDefaults rest m
    | some none => .panic
    | some (some d) => applyDefaults rest (m ++ [(id, d)])

/-- Unserialize of one present property (`convertData`, third loop). The Go code visits the
    declared properties in map order and unserializes those that are set; since every key of the
    (defaulted) map is a declared property, visiting the entries of the map is the same set of
    visits - only the order differs, which Go leaves unspecified anyway. -/
def objEntryU (rec : Rec) (env : Env) (props : List (String × PropT)) (k : String) (d : V) : Out V :=
  match lookupS k props with
  | none => .cerr
  | some p => if p.disabled then .cerrAt [k] else (rec .U env p.ty d).addSeg k

/-- `ObjectSchema.Unserialize` up to the interdependency check: the property map -/
def objRaw (rec : Rec) (env : Env) (props : List (String × PropT)) (v : V) : Out (List (String × V)) :=
  match v.mapEntries? with
  | none =>
    match props with
    | [(name, p)] =>
      if p.disabled then .plain else
      (rewrapP (rec .U env p.ty v)).bind fun r => .ok [(name, r)]
    | _ => .cerr
  | some (_, kvs) =>
    match strKeys? kvs with
    | none => .cerr
    | some skvs =>
      if skvs.any (fun kv => !(hasKey kv.1 props)) then .cerr else
      (applyDefaults props skvs).bind fun m => forSV (objEntryU rec env props) m

/-- `validateMapTypesCompatibility` -/
def objCompatMap (rec : Rec) (env : Env) (props : List (String × PropT)) (m : List (String × V)) : Out V :=
  (forSV (fun k e =>
    match lookupS k props with
    | none => .cerr
    | some p =>
      ((rewrapC (rec .C env p.ty e)).bind fun _ => if p.disabled then .cerr else done).addSeg k) m).bind fun _ =>
    if props.any (fun kp => kp.2.required &&
        (match lookupS kp.1 m with | none => true | some .nil => true | _ => false))
    then .cerr else done

/-- Validate / Serialize of one entry of a native object value -/
def objEntry (rec : Rec) (op : Op) (env : Env) (props : List (String × PropT)) (k : String) (e : V) : Out V :=
  match lookupS k props with
  | none => .cerr
  | some p => (rec op env p.ty e).addSeg k

def runObj (rec : Rec) (op : Op) (env : Env) (id : String) (props : List (String × PropT)) (v : V) : Out V :=
  match op with
  | .U =>
    (objRaw rec env props v).bind fun m =>
      (interdeps props (fun k => hasKey k m)).bind fun _ => .ok (toStrAny m)
  | .V | .S =>
    match v with
    | .map ⟨.string, true⟩ kvs =>
      match strKeys? kvs with
      | none => .cerr  -- not a Go value: a map[string]any has string keys
      | some m =>
        (interdeps props (fun k => hasKey k m)).bind fun _ =>
          (forSV (objEntry rec op env props) m).bind fun m' =>
            if op == .V then done else .ok (toStrAny m')
    | _ => .cerr
  | .C =>
    match v with
    | .map ⟨.string, true⟩ kvs =>
      match strKeys? kvs with
      | none => .cerr
      | some m => objCompatMap rec env props m
    | _ => (rewrapC (rec .U env (.obj id props) v)).bind fun _ => done

/-- `selectMember` (+ the member's data compatibility when `compat`, = `validateMap`) -/
def oneOfSelect (rec : Rec) (env : Env) (intKey : Bool) (disc : String) (inlined : Bool)
    (members : List (Key × Ty)) (compat : Bool) (m : List (String × V)) : Out (Key × Ty × List (String × V)) :=
  let typed : Option Key := match lookupS disc m with
    | some (.int .int64 n) => if intKey then some (.i n) else none
    | some (.str s) => if intKey then none else some (.s s)
    | _ => none
  match typed with
  | none => .cerr
  | some key =>
    match lookupK key members with
    | none => .cerr
    | some mt =>
      let clone := if inlined then m else eraseKey disc m
      if compat then
        (rewrapC (rec .C env mt (toStrAny clone))).bind fun _ => .ok (key, mt, clone)
      else .ok (key, mt, clone)

/-- is this entry keyed by exactly the string `disc`? (`MapIndex(reflect.ValueOf(name))`) -/
def isDiscKey (disc : String) (kv : V × V) : Bool :=
  match kv.1 with
  | .str s => s == disc
  | _ => false

def oneOfUnser (rec : Rec) (x : Ext) (env : Env) (intKey : Bool) (disc : String) (inlined : Bool)
    (members : List (Key × Ty)) (v : V) : Out V :=
  match v with
  | .nil => .plain
  | _ =>
    match v.mapEntries? with
    | none => .cerr
    | some (sh, kvs) =>
      if !(sh.key == .any || sh.key == .string) then .cerr else
      match kvs.find? (isDiscKey disc) with
      | none => .cerr
      | some (_, d) =>
        let typed : Out Key :=
          if intKey then (rewrapC (intInputMapper none d)).bind fun n => .ok (.i n)
          else (rewrapC (stringInputMapper x d)).bind fun s => .ok (.s s)
        typed.bind fun key =>
          match strKeys? kvs with
          | none => .cerr
          | some m =>
            match lookupK key members with
            | none => .cerr
            | some mt =>
              let clone := if inlined then m else eraseKey disc m
              (rec .U env mt (toStrAny clone)).bind fun r =>
                match r with
                | .map ⟨.string, true⟩ rk =>
                  match strKeys? rk with
                  | some rm => .ok (toStrAny (setKey disc key.toV rm))
                  | none => .cerr
                | _ => .ok r

def runOneOf (rec : Rec) (x : Ext) (op : Op) (env : Env) (intKey : Bool) (disc : String) (inlined : Bool)
    (members : List (Key × Ty)) (v : V) : Out V :=
  match op with
  | .U => oneOfUnser rec x env intKey disc inlined members v
  | .V =>
    match v with
    | .map ⟨.string, true⟩ kvs =>
      match strKeys? kvs with
      | none => .cerr
      | some m =>
        (oneOfSelect rec env intKey disc inlined members false m).bind fun sel =>
          ((rec .V env sel.2.1 (toStrAny sel.2.2)).addSeg ("{oneof[" ++ sel.1.fmt ++ "]}")).bind fun _ => done
    | _ => .cerr
  | .S =>
    match v with
    | .map ⟨.string, true⟩ kvs =>
      match strKeys? kvs with
      | none => .cerr
      | some m =>
        (oneOfSelect rec env intKey disc inlined members false m).bind fun sel =>
          (rec .S env sel.2.1 (toStrAny sel.2.2)).bind fun r =>
            match r with
            | .map ⟨.string, true⟩ rk =>
              match strKeys? rk with
              | some rm => .ok (toStrAny (if hasKey disc rm then rm else rm ++ [(disc, sel.1.toV)]))
              | none => .cerr
            | _ => .panic  -- `serializedData.(map[string]any)` is an unchecked assertion
    | _ => .cerr
  | .C =>
    match v with
    | .map ⟨.string, true⟩ kvs =>
      match strKeys? kvs with
      | none => .cerr
      | some m => (oneOfSelect rec env intKey disc inlined members true m).bind fun _ => done
    | _ => .cerr

def runAny (op : Op) (fuel : Nat) (v : V) : Out V :=
  match op with
  | .U | .S => anyConvert fuel v
  | .V => (anyConvert fuel v).bind fun _ => done
  | .C => anyCompat fuel v

/-- One operation of the SDK on a schema and a Go value.
    `U`: Unserialize, result = the unserialized value.
    `V`: Validate, `C`: data-mode ValidateCompatibility, result = `done`.
    `S`: Serialize, result = the serialized value. -/
def run (x : Ext) : Nat → Rec
  | 0 => fun _ _ _ _ => .fuel
  | fuel + 1 => fun op env t v =>
    match t with
    | .int min max units => runInt op min max units v
    | .float min max units => runFloat x op min max units v
    | .str min max pat => runStr x op min max pat v
    | .bool => runBool op v
    | .pattern => runPattern x op v
    | .enumInt vals units => runEnumInt op vals units v
    | .enumStr vals => runEnumStr x op vals v
    | .list item min max => runList (run x fuel) op env item min max v
    | .map kt vt min max => runMap (run x fuel) op env kt vt min max v
    | .obj id props => runObj (run x fuel) op env id props v
    | .oneOf intKey disc inlined members => runOneOf (run x fuel) x op env intKey disc inlined members v
    | .ref id =>
      match lookupS id env with
      | none => .panic
      | some o => run x fuel op env o v
    | .scope objs root =>
      match lookupS root objs with
      | none => .panic
      | some o => run x fuel op objs o v
    | .any => runAny op (fuel + 1) v

end Arca
