import Lean.Data.Json
import ArcaModel.Model.Codegen
import ArcaModel.Model.Dispatch
/-
  Line-protocol handler of the code generator model (op "CODEGEN").

  case:   {"id":n,"op":"CODEGEN",
           "doc":[[objectKey,[[propertyKey,typeId,refId],...]],...],   -- in the order given
           "args":[fileName(, ignore ...)]}                           -- os.Args[1:]
  result: {"r":"ok","v":{"decls":[{"name":s,"fields":[{"name":f,"type":t,"tag":j},...]},...],
                         "raw":"<text handed to format.Source>"}}
          | {"r":"panic"} | {"r":"err"}
  The declarations are listed in emission order (which, after sorting, is canonical).
  (Executable glue only; nothing here is used in a theorem.)
-/
open Lean

namespace Arca.Dispatch

open Arca.Codegen

def cgDecProp (j : Json) : R (String × TypeDesc) := do
  let a ← j.getArr?
  if a.size < 3 then throw "CODEGEN: property needs [name,typeId,refId]"
  return (← getStr a[0]!, ⟨← getStr a[1]!, ← getStr a[2]!⟩)

def cgDecObj (j : Json) : R (String × Props) := do
  let a ← j.getArr?
  if a.size < 2 then throw "CODEGEN: object needs [name,[props]]"
  let ps ← a[1]!.getArr?
  return (← getStr a[0]!, ← ps.toList.mapM cgDecProp)

def cgDecDoc (j : Json) : R Doc := do
  let a ← j.getArr?
  a.toList.mapM cgDecObj

def cgEncField (f : FieldDecl) : Json :=
  Json.mkObj [("name", .str f.name), ("type", .str f.type), ("tag", .str f.tag)]

def cgEncStruct (s : StructDecl) : Json :=
  Json.mkObj [("name", .str s.name), ("fields", .arr (s.fields.map cgEncField).toArray)]

def handleCodegen (j : Json) : R Json := do
  let doc ← cgDecDoc (← field j "doc")
  let args ← strList j "args"
  match generateRaw doc args, generate doc (ignoreArg args) with
  | .ok raw, .ok ds =>
    return Json.mkObj [("r", "ok"), ("v", Json.mkObj [
      ("decls", .arr (ds.map cgEncStruct).toArray),
      ("raw", .str raw)])]
  | .err _, _ => return Json.mkObj [("r", "err")]
  | .panic, _ => return Json.mkObj [("r", "panic")]
  | .fuel, _ => return Json.mkObj [("r", "fuel")]
  | .ok _, _ => throw "CODEGEN: generateRaw and generate disagree"

def codegenHandler (op : String) (j : Json) : Option (R Json) :=
  if op == "CODEGEN" then some (handleCodegen j) else none

end Arca.Dispatch
