import ArcaModel.Model.StructMap
import ArcaModel.Model.WFCheck
/-
  Executable well-formedness checks for the struct-mapping model: `wfObjB` (one struct type /
  property table pair), `exactObjB` (exact typing), `wfSB` (a whole schema tree). Their meaning is
  in `Lemmas/StructMap.lean` (`wfObjB_iff`) and `Lemmas/StructMapTotal.lean` (`wfSB_sound`); the
  driver reports them for every case so that the share of generated pairs the theorems speak
  about is visible. Core Lean only.
-/
namespace Arca
namespace SM

def keysOf {α} (m : List (String × α)) : List String := m.map (·.1)


/-- the zero value recorded for a field fits the field's type: nil for pointers, the nil
    interface for `any`, otherwise a (non-pointer, non-nil) value that `DeepEqual`s the zero value -/
def zeroOK (f : Field) : Bool :=
  if f.ty.isPtr then f.zero.isNilPtr
  else if f.ty == .iface then f.zero.isNilIface
  else f.zero.isZero && !f.zero.isNilPtr && !f.zero.isPtrVal && !f.zero.isNilIface

/-- the name of the field a property is mapped to -/
def fieldName? (st : StructTy) (k : String) : Option String := (fieldFor st k).map (·.name)

/-- one property against the struct type: it has a field, the field is exported, and the field
    (or what the pointer field points to) takes values of the property's type - for a property whose
    type is the empty interface only an interface field does -/
def propOK (st : StructTy) (kp : String × SProp) : Bool :=
  match fieldFor st kp.1 with
  | some f =>
    f.exported && convOK (elemTy f.ty (reflTy kp.2.ty)) (reflTy kp.2.ty) &&
      (reflTy kp.2.ty != .iface || f.ty == .iface)
  | none => false

/-- Well-formedness of a (struct type, property table) pair, decidable:
    field names are distinct (Go), property IDs are distinct (a Go map), every property has an
    exported field of a fitting type (`propOK`), different properties use different fields, every
    default decodes, the recorded zero values fit. -/
def wfObjB (st : StructTy) (props : List (String × SProp)) : Bool :=
  decide (st.fields.map (·.name)).Nodup && decide (keysOf props).Nodup &&
  props.all (propOK st) &&
  props.all (fun a => props.all (fun b => fieldName? st a.1 != fieldName? st b.1 || a.1 == b.1)) &&
  props.all (fun kp => defaultOK kp.2.rules) && st.fields.all zeroOK

/-- exact typing: the field has the property's reflected type, or is a pointer to it -/
def exactField (f : Field) (src : GoTy) : Bool :=
  f.ty == src || (f.ty == .ptr src && !src.isPtr && src != .iface)

def exactObjB (st : StructTy) (props : List (String × SProp)) : Bool :=
  props.all fun kp =>
    match fieldFor st kp.1 with
    | some f => exactField f (reflTy kp.2.ty)
    | none => false


/-- a schema that denotes a struct-mapped object: the object itself, or scopes around it -/
def objLikeS : Nat → STy → Bool
  | 0, _ => false
  | _ + 1, .obj _ _ _ _ => true
  | n + 1, .scope t => objLikeS n t
  | _ + 1, _ => false

/-- the property table of an object-like schema -/
def memberProps : Nat → STy → Option (List (String × SProp))
  | 0, _ => none
  | _ + 1, .obj _ _ _ props => some props
  | n + 1, .scope t => memberProps n t
  | _ + 1, _ => none

/-- a discriminator property has a type of the one-of's key kind (string / string enum for string
    keys, int / int enum for int keys): `validateSubtypeDiscriminatorInlineFields` compares the
    reflected kinds -/
def discLeafOK (intKey : Bool) : STy → Bool
  | .leaf (.str _ _ _) | .leaf (.enumStr _) => !intKey
  | .leaf (.int _ _ _) | .leaf (.enumInt _ _) => intKey
  | _ => false

/-- what `validateSubtypeDiscriminatorInlineFields` asks of a member (it panics otherwise, when
    the one-of sits in a scope): inlined - the member declares the discriminator with a type of the
    key kind; not inlined - the member does not declare it -/
def discOK (n : Nat) (intKey : Bool) (disc : String) (inlined : Bool) (mt : STy) : Bool :=
  match memberProps n mt with
  | none => false
  | some ps =>
    if inlined then
      (match lookupS disc ps with
       | some p => discLeafOK intKey p.ty
       | none => false)
    else !hasKey disc ps

/-- fuelled executable check of `WFS` -/
def wfSB : Nat → STy → Bool
  | 0, _ => false
  | n + 1, .leaf t => wfB (n + 1) [] t
  | n + 1, .list item _ _ => wfSB n item
  | n + 1, .map k v _ _ => wfB (n + 1) [] k && wfSB n v
  | n + 1, .scope t => wfSB n t
  | n + 1, .obj _ st _ props =>
    wfObjB st props && props.all (fun kp => wfSB n kp.2.ty)
  | n + 1, .oneOf intKey disc inlined members =>
    -- members are struct-mapped objects, consistent about the discriminator; their keys are distinct
    -- (a Go map) and so are their struct types (`findUnderlyingType` picks a member by type)
    members.all (fun m => wfSB n m.2 && objLikeS n m.2 && discOK n intKey disc inlined m.2) &&
    decide (members.map (·.1)).Nodup && decide (members.map fun m => reflTy m.2).Nodup


/-- exact typing everywhere in the tree -/
def exactSB : Nat → STy → Bool
  | 0, _ => false
  | _ + 1, .leaf _ => true
  | n + 1, .list item _ _ => exactSB n item
  | n + 1, .map _ v _ _ => exactSB n v
  | n + 1, .scope t => exactSB n t
  | n + 1, .obj _ st _ props => exactObjB st props && props.all (fun kp => exactSB n kp.2.ty)
  | n + 1, .oneOf _ _ _ members => members.all (fun m => exactSB n m.2)

end SM
end Arca
