import ArcaModel.Model.Scalar
/-
  Integer unit formatting of the SDK (`schema/units.go`): `UnitsDefinition.FormatShortInt` and
  `FormatLongInt`. The parsing side (`ParseInt`, `ParseFloat`) is in `Scalar.lean`.
  All int64 arithmetic is spelled out with `wrapInt64`, so the functions agree with the Go code
  for every int64 argument and every definition with non-zero multipliers (a zero multiplier makes
  the Go code panic with a division by zero; `Int.tdiv _ 0 = 0` here).
  Core Lean only (linked into the native driver).
-/
namespace Arca

/-- `floorDiv(a, b)` of units.go: Go's truncating `/` and `%`, corrected toward negative infinity -/
def floorDiv (a b : Int) : Int :=
  let q := wrapInt64 (a.tdiv b)
  if a.tmod b != 0 && ((decide (a < 0)) != (decide (b < 0))) then wrapInt64 (q - 1) else q

/-- `formatNumberUnitShort(amount, unit, displayZero)` at `int64`
    (`trimFraction` is the identity on a `%d` rendering: it contains no '.') -/
def fmtCountShort (amount : Int) (u : UnitNames) (displayZero : Bool) : String :=
  if amount == 1 || amount == -1 then fmtInt amount ++ u.ss
  else if amount != 0 then fmtInt amount ++ u.sp
  else if displayZero then fmtInt amount ++ u.sp
  else ""

/-- `formatNumberUnitLong(amount, unit, displayZero)` at `int64` -/
def fmtCountLong (amount : Int) (u : UnitNames) (displayZero : Bool) : String :=
  if amount == 1 || amount == -1 then fmtInt amount ++ u.ls
  else if amount != 0 then fmtInt amount ++ u.lp
  else if displayZero then fmtInt amount ++ u.lp
  else ""

/-- the loop over the sorted multipliers followed by the base unit:
    `base := floorDiv(remainder, m); remainder -= base * m; output += f(base, unit, false)` -/
def fmtGroups (f : Int → UnitNames → Bool → String) (base : UnitNames) :
    List (Int × UnitNames) → Int → String
  | [], rem => f rem base false
  | (m, nm) :: ms, rem =>
    let b := floorDiv rem m
    let rem' := wrapInt64 (rem - wrapInt64 (b * m))
    f b nm false ++ fmtGroups f base ms rem'

/-- `UnitsDefinition.FormatShortInt` -/
def Units.formatShortInt (u : Units) (n : Int) : String :=
  if n == 0 then fmtCountShort n u.base true
  else fmtGroups fmtCountShort u.base (sortDesc u.mults) n

/-- `UnitsDefinition.FormatLongInt` -/
def Units.formatLongInt (u : Units) (n : Int) : String :=
  if n == 0 then fmtCountLong n u.base true
  else fmtGroups fmtCountLong u.base (sortDesc u.mults) n

/-! ### the five built-in definitions (package variables of `schema/units.go`) -/

def UnitBytes : Units :=
  { base := ⟨"B", "B", "byte", "bytes"⟩,
    mults := [
      (1024, ⟨"kB", "kB", "kilobyte", "kilobytes"⟩),
      (1048576, ⟨"MB", "MB", "megabyte", "megabytes"⟩),
      (1073741824, ⟨"GB", "GB", "gigabyte", "gigabytes"⟩),
      (1099511627776, ⟨"TB", "TB", "terabyte", "terabytes"⟩),
      (1125899906842624, ⟨"PB", "PB", "petabyte", "petabytes"⟩)] }

def UnitDurationNanoseconds : Units :=
  { base := ⟨"ns", "ns", "nanosecond", "nanoseconds"⟩,
    mults := [
      (1000, ⟨"\u03bcs", "\u03bcs", "microsecond", "microseconds"⟩),
      (1000000, ⟨"ms", "ms", "milliseconds", "milliseconds"⟩),
      (1000000000, ⟨"s", "s", "second", "seconds"⟩),
      (60000000000, ⟨"m", "m", "minute", "minutes"⟩),
      (3600000000000, ⟨"H", "H", "hour", "hours"⟩),
      (86400000000000, ⟨"d", "d", "day", "days"⟩)] }

def UnitDurationSeconds : Units :=
  { base := ⟨"s", "s", "second", "seconds"⟩,
    mults := [
      (60, ⟨"m", "m", "minute", "minutes"⟩),
      (3600, ⟨"H", "H", "hour", "hours"⟩),
      (86400, ⟨"d", "d", "day", "days"⟩)] }

def UnitCharacters : Units :=
  { base := ⟨"char", "chars", "character", "characters"⟩, mults := [] }

def UnitPercentage : Units :=
  { base := ⟨"%", "%", "percent", "percent"⟩, mults := [] }

end Arca
