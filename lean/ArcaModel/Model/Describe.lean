import ArcaModel.Model.WFCheck
/-
  Self-description of schemas (C09, C10).

  * `DTy` / `DObj` / `DProp`: the schema tree with everything a description carries and `Arca.Ty`
    does not (display data, reference namespaces, `id_unenforced`, examples, disabled reason, the
    JSON text of defaults). `forget` maps it to `Arca.Ty`.
  * `describe`: the wire form `SelfSerialize` produces (field names and omission rules of the
    struct-mapped meta-schema: nil pointers and nil interfaces are omitted, everything else - also
    `false`, empty lists and empty maps - is written).
  * `metaScope` / `metaSchema`: the SDK's meta-schema (`schema_schema.go`) as a value of `Arca.Ty`.
    The real meta-schema is struct-mapped; the model abstracts each Go struct as the
    `map[string]any` it is filled from (all meta objects are pointer-typed, so the sub-object
    defaulting of struct-mapped objects never applies), and `ofDescription` is the pure
    conversion from that map to the schema tree (`unserializeToStruct`; a map that does not fit
    is an error in Go as well: "Field cannot be set").
  * `rebuild` = `run .U` on the meta-schema followed by `ofDescription`: what
    `DescribeScope().Unserialize` does, with all the leniencies of Unserialize.
  * `linkCheck`: what the wire path (`UnserializeScope` / `UnserializeSchema`) verifies after
    rebuilding; `unserializeScope` = `rebuild` then `linkCheck`.
  Core Lean only.
-/
namespace Arca

/-- `DisplayValue`: three optional strings -/
structure Disp where
  name : Option String
  desc : Option String
  icon : Option String
deriving DecidableEq, Repr, Inhabited

mutual
inductive DTy where
  | int (min max : Option Int) (units : Option Units)
  | float (min max : Option Nat) (units : Option Units)
  | str (min max : Option Int) (pat : Option String)
  | bool
  | pattern
  | enumInt (vals : List (Int × Disp)) (units : Option Units)
  | enumStr (vals : List (String × Disp))
  | list (item : DTy) (min max : Option Int)
  | map (k v : DTy) (min max : Option Int)
  | obj (o : DObj)
  | oneOf (intKey : Bool) (disc : String) (inlined : Bool) (members : List (Key × DTy))
  | ref (id ns : String) (disp : Option Disp)
  | scope (objs : List (String × DObj)) (root : String)
  | any
inductive DObj where
  | mk (id : String) (unenforced : Bool) (props : List (String × DProp))
inductive DProp where
  | mk (ty : DTy) (disp : Option Disp) (required : Bool) (requiredIf requiredIfNot conflicts : List String)
       (default : Option String) (examples : List String) (disabled : Bool) (disabledReason : Option String)
end

instance : Inhabited DTy := ⟨.any⟩
instance : Inhabited DObj := ⟨.mk "" false []⟩
instance : Inhabited DProp := ⟨.mk .any none false [] [] [] none [] false none⟩

/-- `encoding/json` decoding of a default text into `any`, an external supplied per case -/
abbrev JD := String → Option V

/-! ### forgetting the description-only attributes -/

def defaultOf (jd : JD) : Option String → Option DefaultV
  | none => none
  | some t => some ⟨jd t, jd ("\"" ++ t ++ "\"")⟩

mutual
def forget (jd : JD) : DTy → Ty
  | .int a b u => .int a b u
  | .float a b u => .float a b u
  | .str a b p => .str a b p
  | .bool => .bool
  | .pattern => .pattern
  | .enumInt vs u => .enumInt (vs.map (·.1)) u
  | .enumStr vs => .enumStr (vs.map (·.1))
  | .list item a b => .list (forget jd item) a b
  | .map k v a b => .map (forget jd k) (forget jd v) a b
  | .obj o => forgetObj jd o
  | .oneOf ik d inl ms => .oneOf ik d inl (forgetMembers jd ms)
  | .ref id _ _ => .ref id
  | .scope objs root => .scope (forgetObjs jd objs) root
  | .any => .any
termination_by structural t => t
def forgetObj (jd : JD) : DObj → Ty
  | .mk id _ props => .obj id (forgetProps jd props)
termination_by structural t => t
def forgetProps (jd : JD) : List (String × DProp) → List (String × PropT)
  | [] => []
  | (n, p) :: rest => (n, forgetProp jd p) :: forgetProps jd rest
termination_by structural t => t
def forgetProp (jd : JD) : DProp → PropT
  | .mk ty _ req rif rifn conf dflt _ dis _ => .mk (forget jd ty) req rif rifn conf (defaultOf jd dflt) dis
termination_by structural t => t
def forgetMembers (jd : JD) : List (Key × DTy) → List (Key × Ty)
  | [] => []
  | (k, t) :: rest => (k, forget jd t) :: forgetMembers jd rest
termination_by structural t => t
def forgetObjs (jd : JD) : List (String × DObj) → List (String × Ty)
  | [] => []
  | (n, o) :: rest => (n, forgetObj jd o) :: forgetObjs jd rest
termination_by structural t => t
end

/-! ### describe -/

/-- How a description is represented as a Go value.
    * `direct`: what `SelfSerialize` itself yields (`int64`, `map[string]any` for struct-mapped
      objects, `map[any]any` for maps, patterns as strings);
    * `cbor`: after one CBOR round trip (`uint64` for non-negative integers, `map[any]any`
      everywhere);
    * `norm`: what `Unserialize` of the meta-schema yields before the structs are filled
      (`int64`, `map[string]any` for objects, typed maps, compiled patterns). -/
structure Rep where
  ik : Int → IKind
  objShape : MapShape
  kvShape : KeyTy → Bool → MapShape
  pat : String → V

def Rep.direct : Rep := ⟨fun _ => .int64, .strAny, fun _ _ => .anyAny, V.str⟩
def Rep.cbor : Rep := ⟨fun n => if n ≥ 0 then .uint64 else .int64, .anyAny, fun _ _ => .anyAny, V.str⟩
def Rep.norm : Rep := ⟨fun _ => .int64, .strAny, fun k a => ⟨k, a⟩, V.regex⟩

def Rep.int (r : Rep) (n : Int) : V := .int (r.ik n) n
def Rep.obj (r : Rep) (m : List (String × V)) : V := .map r.objShape (m.map fun (k, v) => (V.str k, v))
/-- a map-typed field; `kt`, `va`: key type and "values are `any`" of the Go map it is read into -/
def Rep.kv (r : Rep) (kt : KeyTy) (va : Bool) (kvs : List (V × V)) : V := .map (r.kvShape kt va) kvs

/-- an optional field: omitted when absent -/
def optF {α} (k : String) (f : α → V) : Option α → List (String × V)
  | none => []
  | some a => [(k, f a)]

def strList (ss : List String) : V := .list (ss.map V.str)

def descDisp (r : Rep) (d : Disp) : V :=
  r.obj (optF "name" V.str d.name ++ optF "description" V.str d.desc ++ optF "icon" V.str d.icon)

def descUnit (r : Rep) (u : UnitNames) : V :=
  r.obj [("name_short_singular", .str u.ss), ("name_short_plural", .str u.sp),
         ("name_long_singular", .str u.ls), ("name_long_plural", .str u.lp)]

def descMults (r : Rep) : List (Int × UnitNames) → List (V × V)
  | [] => []
  | (m, n) :: rest => (r.int m, descUnit r n) :: descMults r rest

def descUnits (r : Rep) (u : Units) : V :=
  r.obj [("base_unit", descUnit r u.base), ("multipliers", r.kv .int64 false (descMults r u.mults))]

def descIntVals (r : Rep) : List (Int × Disp) → List (V × V)
  | [] => []
  | (n, d) :: rest => (r.int n, descDisp r d) :: descIntVals r rest

def descStrVals (r : Rep) : List (String × Disp) → List (V × V)
  | [] => []
  | (s, d) :: rest => (.str s, descDisp r d) :: descStrVals r rest

def Key.rep (r : Rep) : Key → V
  | .i n => r.int n
  | .s t => .str t

def f64 (b : Nat) : V := .float .f64 b

/-- the `type_id` of a type -/
def DTy.typeId : DTy → String
  | .int _ _ _ => "integer"
  | .float _ _ _ => "float"
  | .str _ _ _ => "string"
  | .bool => "bool"
  | .pattern => "pattern"
  | .enumInt _ _ => "enum_integer"
  | .enumStr _ => "enum_string"
  | .list _ _ _ => "list"
  | .map _ _ _ _ => "map"
  | .obj _ => "object"
  | .oneOf ik _ _ _ => if ik then "one_of_int" else "one_of_string"
  | .ref _ _ _ => "ref"
  | .scope _ _ => "scope"
  | .any => "any"

/-- a type as a member of a `type_id` one-of: its fields and the discriminator -/
def Rep.typed (r : Rep) (tid : String) (fields : List (String × V)) : V :=
  r.obj (fields ++ [("type_id", .str tid)])

mutual
/-- the fields of a type, without the `type_id` the enclosing one-of adds -/
def descTyF (r : Rep) : DTy → List (String × V)
  | .int a b u => optF "min" r.int a ++ optF "max" r.int b ++ optF "units" (descUnits r) u
  | .float a b u => optF "min" f64 a ++ optF "max" f64 b ++ optF "units" (descUnits r) u
  | .str a b p => optF "min" r.int a ++ optF "max" r.int b ++ optF "pattern" r.pat p
  | .bool => []
  | .pattern => []
  | .enumInt vs u => [("values", r.kv .int64 false (descIntVals r vs))] ++ optF "units" (descUnits r) u
  | .enumStr vs => [("values", r.kv .string false (descStrVals r vs))]
  | .list item a b =>
    [("items", r.typed item.typeId (descTyF r item))] ++ optF "min" r.int a ++ optF "max" r.int b
  | .map k v a b =>
    [("keys", r.typed k.typeId (descTyF r k)), ("values", r.typed v.typeId (descTyF r v))] ++
      optF "min" r.int a ++ optF "max" r.int b
  | .obj o => descObjF r o
  | .oneOf ik d inl ms =>
    [("discriminator_inlined", .bool inl), ("discriminator_field_name", .str d),
     ("types", r.kv (if ik then .int64 else .string) true (descMembers r ms))]
  | .ref id ns d => [("id", .str id), ("namespace", .str ns)] ++ optF "display" (descDisp r) d
  | .scope objs root => [("objects", r.kv .string false (descObjs r objs)), ("root", .str root)]
  | .any => []
termination_by structural t => t
def descObjF (r : Rep) : DObj → List (String × V)
  | .mk id unenf props =>
    [("id", .str id), ("properties", r.kv .string false (descProps r props)), ("id_unenforced", .bool unenf)]
termination_by structural t => t
def descProps (r : Rep) : List (String × DProp) → List (V × V)
  | [] => []
  | (n, p) :: rest => (.str n, descProp r p) :: descProps r rest
termination_by structural t => t
def descProp (r : Rep) : DProp → V
  | .mk ty disp req rif rifn conf dflt ex dis reason =>
    r.obj ([("type", r.typed ty.typeId (descTyF r ty))] ++ optF "display" (descDisp r) disp ++
      [("required", .bool req), ("required_if", strList rif), ("required_if_not", strList rifn),
       ("conflicts", strList conf)] ++ optF "default" V.str dflt ++
      [("examples", strList ex), ("disabled", .bool dis)] ++ optF "disabled_reason" V.str reason)
termination_by structural t => t
def descMembers (r : Rep) : List (Key × DTy) → List (V × V)
  | [] => []
  | (k, t) :: rest => (k.rep r, r.typed t.typeId (descTyF r t)) :: descMembers r rest
termination_by structural t => t
def descObjs (r : Rep) : List (String × DObj) → List (V × V)
  | [] => []
  | (n, o) :: rest => (.str n, r.obj (descObjF r o)) :: descObjs r rest
termination_by structural t => t
end

/-- a type as a member of the `type_id` one-of -/
def descTy (r : Rep) (t : DTy) : V := r.typed t.typeId (descTyF r t)

/-- `ScopeSchema.SelfSerialize()` in representation `r` (the scope object itself: no `type_id`) -/
def describeR (r : Rep) (s : DTy) : V := r.obj (descTyF r s)

/-- what `SelfSerialize` returns for a scope (or, for any other type, for the struct describing
    that type) -/
def describe (s : DTy) : V := describeR .direct s

/-! ### whole plugin schemas -/

structure DSignal where
  id : String
  data : DTy
  disp : Option Disp
deriving Inhabited

structure DOutput where
  schema : DTy
  disp : Option Disp
  error : Bool
deriving Inhabited

structure DStep where
  id : String
  input : DTy
  outputs : List (String × DOutput)
  handlers : List (String × DSignal)
  emitters : List (String × DSignal)
  disp : Option Disp
deriving Inhabited

/-- `SchemaSchema`: the steps by key -/
abbrev DSchema := List (String × DStep)

def descSignal (r : Rep) (s : DSignal) : V :=
  r.obj ([("id", .str s.id), ("data_schema", describeR r s.data)] ++ optF "display" (descDisp r) s.disp)

def descOutput (r : Rep) (o : DOutput) : V :=
  r.obj ([("schema", describeR r o.schema)] ++ optF "display" (descDisp r) o.disp ++ [("error", .bool o.error)])

def descStep (r : Rep) (s : DStep) : V :=
  r.obj ([("id", .str s.id), ("input", describeR r s.input),
          ("outputs", r.kv .string false (s.outputs.map fun (k, o) => (V.str k, descOutput r o))),
          ("signal_handlers", r.kv .string false (s.handlers.map fun (k, g) => (V.str k, descSignal r g))),
          ("signal_emitters", r.kv .string false (s.emitters.map fun (k, g) => (V.str k, descSignal r g)))] ++
         optF "display" (descDisp r) s.disp)

def describeSchemaR (r : Rep) (s : DSchema) : V :=
  r.obj [("steps", r.kv .string false (s.map fun (k, st) => (V.str k, descStep r st)))]

/-- `SchemaSchema.SelfSerialize()` -/
def describeSchema (s : DSchema) : V := describeSchemaR .direct s

/-! ### CBOR normalisation -/

mutual
/-- One `cbor.Marshal` / `cbor.Unmarshal` into `any` as ATP performs it, on the value domain of
    descriptions and serialized data: non-negative integers come back as `uint64`, negative ones
    as `int64`, every map as `map[any]any`, every slice as `[]any`, `float32` widened to
    `float64`, named scalars lose their name. (Regexps and opaque values are outside the domain;
    they are left alone.) -/
def cborNorm : V → V
  | .int _ i => if i ≥ 0 then .int .uint64 i else .int .int64 i
  | .float _ b => .float .f64 b
  | .list xs => .list (cborNormL xs)
  | .map _ kvs => .map .anyAny (cborNormKV kvs)
  | .named x => cborNorm x
  | .nil => .nil
  | .bool b => .bool b
  | .str s => .str s
  | .bytes b => .bytes b
  | .regex s => .regex s
  | .opaque => .opaque
termination_by structural v => v
def cborNormL : List V → List V
  | [] => []
  | x :: xs => cborNorm x :: cborNormL xs
termination_by structural l => l
def cborNormKV : List (V × V) → List (V × V)
  | [] => []
  | (k, e) :: rest => (cborNorm k, cborNorm e) :: cborNormKV rest
termination_by structural l => l
end

/-! ### the meta-schema as a schema value -/

namespace Meta

def P (t : Ty) (req : Bool) : PropT := .mk t req [] [] [] none false
def PD (t : Ty) (req : Bool) (d : DefaultV) : PropT := .mk t req [] [] [] (some d) false

def idPattern : String := "^[$@a-zA-Z0-9-_]+$"
def idType : Ty := .str (some 1) (some 255) (some idPattern)
def strT : Ty := .str none none none
def str1 : Ty := .str (some 1) none none
def intT : Ty := .int none none none
def nat0 : Ty := .int (some 0) none none
def unitCharacters : Units := ⟨⟨"char", "chars", "character", "characters"⟩, []⟩
def len0 : Ty := .int (some 0) none (some unitCharacters)
def floatT : Ty := .float none none none
def strListT : Ty := .list strT none none

/-- default `"false"` / `"true"`: what `encoding/json` makes of the text, and of the quoted text -/
def dFalse : DefaultV := ⟨some (.bool false), some (.str "false")⟩
def dTrue : DefaultV := ⟨some (.bool true), some (.str "true")⟩
/-- default `""` (`SelfNamespace`): not valid JSON; the string fallback yields the empty string -/
def dEmpty : DefaultV := ⟨none, some (.str "")⟩

def valueType : Ty := .oneOf false "type_id" false
  [(.s "any", .ref "AnySchema"), (.s "bool", .ref "BoolSchema"), (.s "enum_integer", .ref "IntEnum"),
   (.s "enum_string", .ref "StringEnum"), (.s "float", .ref "Float"), (.s "integer", .ref "Int"),
   (.s "list", .ref "List"), (.s "map", .ref "Map"), (.s "object", .ref "Object"),
   (.s "one_of_int", .ref "OneOfIntSchema"), (.s "one_of_string", .ref "OneOfStringSchema"),
   (.s "pattern", .ref "Pattern"), (.s "ref", .ref "Ref"), (.s "scope", .ref "Scope"),
   (.s "string", .ref "String")]

def mapKeyType : Ty := .oneOf false "type_id" false [(.s "integer", .ref "Int"), (.s "string", .ref "String")]

def memberType : Ty := .oneOf false "type_id" false
  [(.s "object", .ref "Object"), (.s "ref", .ref "Ref"), (.s "scope", .ref "Scope")]

def unitsP : PropT := P (.ref "Units") false
def displayP : PropT := P (.ref "Display") false

def oAny : Ty := .obj "AnySchema" []
def oBool : Ty := .obj "BoolSchema" []
def oDisplay : Ty := .obj "Display"
  [("description", P str1 false), ("icon", P str1 false), ("name", P str1 false)]
def oFloat : Ty := .obj "Float" [("max", P floatT false), ("min", P floatT false), ("units", unitsP)]
def oInt : Ty := .obj "Int" [("max", P intT false), ("min", P intT false), ("units", unitsP)]
def oIntEnum : Ty := .obj "IntEnum"
  [("units", unitsP), ("values", P (.map intT (.ref "Display") (some 1) none) true)]
def oList : Ty := .obj "List" [("items", P valueType true), ("max", P nat0 false), ("min", P nat0 false)]
def oMap : Ty := .obj "Map"
  [("keys", P mapKeyType true), ("max", P nat0 false), ("min", P nat0 false), ("values", P valueType true)]
def oObject : Ty := .obj "Object"
  [("id", P idType true), ("id_unenforced", PD .bool false dFalse),
   ("properties", P (.map str1 (.ref "Property") none none) true)]
def oOneOfInt : Ty := .obj "OneOfIntSchema"
  [("discriminator_field_name", P strT true), ("discriminator_inlined", PD .bool true dFalse),
   ("types", P (.map intT memberType none none) false)]
def oOneOfString : Ty := .obj "OneOfStringSchema"
  [("discriminator_field_name", P strT true), ("discriminator_inlined", PD .bool true dFalse),
   ("types", P (.map strT memberType none none) false)]
def oPattern : Ty := .obj "Pattern" []
def oProperty : Ty := .obj "Property"
  [("conflicts", P strListT false), ("default", P strT false), ("disabled", P .bool false),
   ("disabled_reason", P strT false), ("display", displayP), ("examples", P strListT false),
   ("required", PD .bool false dTrue), ("required_if", P strListT false),
   ("required_if_not", P strListT false), ("type", P valueType true)]
def oRef : Ty := .obj "Ref"
  [("display", displayP), ("id", P idType false), ("namespace", PD strT false dEmpty)]
def oScope : Ty := .obj "Scope"
  [("objects", P (.map idType (.ref "Object") none none) true), ("root", P idType true)]
def oString : Ty := .obj "String" [("max", P len0 false), ("min", P len0 false), ("pattern", P .pattern false)]
def oStringEnum : Ty := .obj "StringEnum" [("values", P (.map strT (.ref "Display") (some 1) none) true)]
def oUnit : Ty := .obj "Unit"
  [("name_long_plural", P strT true), ("name_long_singular", P strT true),
   ("name_short_plural", P strT true), ("name_short_singular", P strT true)]
def oUnits : Ty := .obj "Units"
  [("base_unit", P (.ref "Unit") true),
   ("multipliers", P (.map (.int (some 1) none none) (.ref "Unit") none none) false)]

def oSchema : Ty := .obj "Schema" [("steps", P (.map idType (.ref "Step") none none) true)]
def oSignal : Ty := .obj "Signal"
  [("data_schema", P (.ref "Scope") true), ("display", displayP), ("id", P idType true)]
def oStep : Ty := .obj "Step"
  [("display", displayP), ("id", P idType true), ("input", P (.ref "Scope") true),
   ("outputs", P (.map idType (.ref "StepOutput") none none) true),
   ("signal_emitters", P (.map idType (.ref "Signal") none none) false),
   ("signal_handlers", P (.map idType (.ref "Signal") none none) false)]
def oStepOutput : Ty := .obj "StepOutput"
  [("display", displayP), ("error", PD .bool false dFalse), ("schema", P (.ref "Scope") true)]

/-- `basicObjects` plus the scope object, sorted by ID: the objects of `DescribeScope()` -/
def scopeObjs : Env :=
  [("AnySchema", oAny), ("BoolSchema", oBool), ("Display", oDisplay), ("Float", oFloat), ("Int", oInt),
   ("IntEnum", oIntEnum), ("List", oList), ("Map", oMap), ("Object", oObject),
   ("OneOfIntSchema", oOneOfInt), ("OneOfStringSchema", oOneOfString), ("Pattern", oPattern),
   ("Property", oProperty), ("Ref", oRef), ("Scope", oScope), ("String", oString),
   ("StringEnum", oStringEnum), ("Unit", oUnit), ("Units", oUnits)]

/-- the objects of `DescribeSchema()`, sorted by ID -/
def schemaObjs : Env :=
  [("AnySchema", oAny), ("BoolSchema", oBool), ("Display", oDisplay), ("Float", oFloat), ("Int", oInt),
   ("IntEnum", oIntEnum), ("List", oList), ("Map", oMap), ("Object", oObject),
   ("OneOfIntSchema", oOneOfInt), ("OneOfStringSchema", oOneOfString), ("Pattern", oPattern),
   ("Property", oProperty), ("Ref", oRef), ("Schema", oSchema), ("Scope", oScope), ("Signal", oSignal),
   ("Step", oStep), ("StepOutput", oStepOutput), ("String", oString),
   ("StringEnum", oStringEnum), ("Unit", oUnit), ("Units", oUnits)]

/-- the objects of `DescribeStepOutput()`, sorted by ID -/
def stepOutputObjs : Env :=
  [("AnySchema", oAny), ("BoolSchema", oBool), ("Display", oDisplay), ("Float", oFloat), ("Int", oInt),
   ("IntEnum", oIntEnum), ("List", oList), ("Map", oMap), ("Object", oObject),
   ("OneOfIntSchema", oOneOfInt), ("OneOfStringSchema", oOneOfString), ("Pattern", oPattern),
   ("Property", oProperty), ("Ref", oRef), ("Scope", oScope), ("StepOutput", oStepOutput), ("String", oString),
   ("StringEnum", oStringEnum), ("Unit", oUnit), ("Units", oUnits)]

end Meta

/-- `DescribeScope()` -/
def metaScope : Ty := .scope Meta.scopeObjs "Scope"
/-- `DescribeSchema()` -/
def metaSchema : Ty := .scope Meta.schemaObjs "Schema"
/-- `DescribeStepOutput()` -/
def metaStepOutput : Ty := .scope Meta.stepOutputObjs "StepOutput"

/-! ### from the unserialized map to the schema tree (`unserializeToStruct`) -/

namespace Parse

abbrev Fields := List (String × V)

def fields? : V → Option Fields
  | .map _ kvs => strKeys? kvs
  | _ => none

/-- optional string field (`*string`): absent = nil -/
def optStr (m : Fields) (k : String) : Option (Option String) :=
  match lookupS k m with
  | none => some none
  | some (.str s) => some (some s)
  | some _ => none

def reqStr (m : Fields) (k : String) : Option String :=
  match lookupS k m with
  | some (.str s) => some s
  | _ => none

/-- string field with the Go zero value when absent -/
def strOr (m : Fields) (k : String) (d : String) : Option String :=
  match lookupS k m with
  | none => some d
  | some (.str s) => some s
  | some _ => none

def boolOr (m : Fields) (k : String) (d : Bool) : Option Bool :=
  match lookupS k m with
  | none => some d
  | some (.bool b) => some b
  | some _ => none

def optInt (m : Fields) (k : String) : Option (Option Int) :=
  match lookupS k m with
  | none => some none
  | some (.int .int64 n) => some (some n)
  | some _ => none

def optFloat (m : Fields) (k : String) : Option (Option Nat) :=
  match lookupS k m with
  | none => some none
  | some (.float .f64 b) => some (some b)
  | some _ => none

/-- `[]string` field: absent = nil = empty -/
def strs (m : Fields) (k : String) : Option (List String) :=
  match lookupS k m with
  | none => some []
  | some (.list xs) => xs.mapM fun
    | .str s => some s
    | _ => none
  | some _ => none

/-- entries of a map-typed field: absent = nil map = no entries -/
def entries (m : Fields) (k : String) : Option (List (V × V)) :=
  match lookupS k m with
  | none => some []
  | some (.map _ kvs) => some kvs
  | some _ => none

def strKeyed {α} (f : V → Option α) (kvs : List (V × V)) : Option (List (String × α)) :=
  kvs.mapM fun
    | (.str k, v) => (f v).map fun a => (k, a)
    | _ => none

def intKeyed {α} (f : V → Option α) (kvs : List (V × V)) : Option (List (Int × α)) :=
  kvs.mapM fun
    | (.int .int64 k, v) => (f v).map fun a => (k, a)
    | _ => none

def disp (v : V) : Option Disp := do
  let m ← fields? v
  return ⟨← optStr m "name", ← optStr m "description", ← optStr m "icon"⟩

def optDisp (m : Fields) : Option (Option Disp) :=
  match lookupS "display" m with
  | none => some none
  | some v => (disp v).map some

def unit (v : V) : Option UnitNames := do
  let m ← fields? v
  return ⟨← reqStr m "name_short_singular", ← reqStr m "name_short_plural",
          ← reqStr m "name_long_singular", ← reqStr m "name_long_plural"⟩

def units (v : V) : Option Units := do
  let m ← fields? v
  let base ← unit (← lookupS "base_unit" m)
  let mults ← intKeyed unit (← entries m "multipliers")
  return ⟨base, mults⟩

def optUnits (m : Fields) : Option (Option Units) :=
  match lookupS "units" m with
  | none => some none
  | some v => (units v).map some

def optPattern (m : Fields) : Option (Option String) :=
  match lookupS "pattern" m with
  | none => some none
  | some (.regex s) => some (some s)
  | some _ => none

def prop (recTy : V → Option DTy) (v : V) : Option DProp := do
  let m ← fields? v
  let ty ← recTy (← lookupS "type" m)
  return .mk ty (← optDisp m) (← boolOr m "required" false) (← strs m "required_if")
    (← strs m "required_if_not") (← strs m "conflicts") (← optStr m "default") (← strs m "examples")
    (← boolOr m "disabled" false) (← optStr m "disabled_reason")

def obj (recTy : V → Option DTy) (m : Fields) : Option DObj := do
  let props ← strKeyed (prop recTy) (← entries m "properties")
  return .mk (← strOr m "id" "") (← boolOr m "id_unenforced" false) props

def objV (recTy : V → Option DTy) (v : V) : Option DObj := do obj recTy (← fields? v)

def scope (recTy : V → Option DTy) (m : Fields) : Option DTy := do
  let objs ← strKeyed (objV recTy) (← entries m "objects")
  return .scope objs (← strOr m "root" "")

def members (recTy : V → Option DTy) (intKey : Bool) (kvs : List (V × V)) : Option (List (Key × DTy)) :=
  kvs.mapM fun (k, v) =>
    match k, intKey with
    | .int .int64 n, true => (recTy v).map fun t => (Key.i n, t)
    | .str s, false => (recTy v).map fun t => (Key.s s, t)
    | _, _ => none

def pInt (m : Fields) : Option DTy := do
  return .int (← optInt m "min") (← optInt m "max") (← optUnits m)
def pFloat (m : Fields) : Option DTy := do
  return .float (← optFloat m "min") (← optFloat m "max") (← optUnits m)
def pStr (m : Fields) : Option DTy := do
  return .str (← optInt m "min") (← optInt m "max") (← optPattern m)
def pEnumInt (m : Fields) : Option DTy := do
  return .enumInt (← intKeyed disp (← entries m "values")) (← optUnits m)
def pEnumStr (m : Fields) : Option DTy := do
  return .enumStr (← strKeyed disp (← entries m "values"))
def pList (recTy : V → Option DTy) (m : Fields) : Option DTy := do
  return .list (← recTy (← lookupS "items" m)) (← optInt m "min") (← optInt m "max")
def pMap (recTy : V → Option DTy) (m : Fields) : Option DTy := do
  return .map (← recTy (← lookupS "keys" m)) (← recTy (← lookupS "values" m)) (← optInt m "min") (← optInt m "max")
def pObj (recTy : V → Option DTy) (m : Fields) : Option DTy := do
  return .obj (← obj recTy m)
def pOneOf (recTy : V → Option DTy) (intKey : Bool) (m : Fields) : Option DTy := do
  return .oneOf intKey (← strOr m "discriminator_field_name" "") (← boolOr m "discriminator_inlined" false)
    (← members recTy intKey (← entries m "types"))
def pRef (m : Fields) : Option DTy := do
  return .ref (← strOr m "id" "") (← strOr m "namespace" "") (← optDisp m)

/-- the type with the given `type_id` and fields -/
def tyOf (recTy : V → Option DTy) (tid : String) (m : Fields) : Option DTy :=
  match tid with
  | "integer" => pInt m
  | "float" => pFloat m
  | "string" => pStr m
  | "bool" => some .bool
  | "pattern" => some .pattern
  | "any" => some .any
  | "enum_integer" => pEnumInt m
  | "enum_string" => pEnumStr m
  | "list" => pList recTy m
  | "map" => pMap recTy m
  | "object" => pObj recTy m
  | "one_of_int" => pOneOf recTy true m
  | "one_of_string" => pOneOf recTy false m
  | "ref" => pRef m
  | "scope" => scope recTy m
  | _ => none

/-- a member of the `type_id` one-of, as `run .U` leaves it (discriminator kept in the map) -/
def ty : Nat → V → Option DTy
  | 0, _ => none
  | n + 1, v => do
    let m ← fields? v
    let tid ← reqStr m "type_id"
    tyOf (ty n) tid m

def signal (n : Nat) (v : V) : Option DSignal := do
  let m ← fields? v
  let data ← scope (ty n) (← fields? (← lookupS "data_schema" m))
  return ⟨← strOr m "id" "", data, ← optDisp m⟩

def output (n : Nat) (v : V) : Option DOutput := do
  let m ← fields? v
  let s ← scope (ty n) (← fields? (← lookupS "schema" m))
  return ⟨s, ← optDisp m, ← boolOr m "error" false⟩

def step (n : Nat) (v : V) : Option DStep := do
  let m ← fields? v
  let input ← scope (ty n) (← fields? (← lookupS "input" m))
  return ⟨← strOr m "id" "", input, ← strKeyed (output n) (← entries m "outputs"),
          ← strKeyed (signal n) (← entries m "signal_handlers"),
          ← strKeyed (signal n) (← entries m "signal_emitters"), ← optDisp m⟩

def schema (n : Nat) (v : V) : Option DSchema := do
  let m ← fields? v
  strKeyed (step n) (← entries m "steps")

end Parse

/-- the scope described by an unserialized description -/
def ofDescription (fuel : Nat) (v : V) : Option DTy :=
  match Parse.fields? v with
  | some m => Parse.scope (Parse.ty fuel) m
  | none => none

def ofSchemaDescription (fuel : Nat) (v : V) : Option DSchema := Parse.schema fuel v

/-! ### rebuild -/

def liftParse {α} (p : V → Option α) : Out V → Out α
  | .ok v => match p v with
    | some a => .ok a
    | none => .plain     -- "Field cannot be set" (unserializeToStruct recovers and returns an error)
  | .err e => .err e
  | .panic => .panic
  | .fuel => .fuel

/-- `DescribeScope().Unserialize(w)`: the scope, not linked and not checked -/
def rebuild (x : Ext) (fuel : Nat) (w : V) : Out DTy :=
  liftParse (ofDescription fuel) (run x fuel .U [] metaScope w)

/-- `DescribeSchema().Unserialize(w)` -/
def rebuildSchema (x : Ext) (fuel : Nat) (w : V) : Out DSchema :=
  liftParse (ofSchemaDescription fuel) (run x fuel .U [] metaSchema w)

/-! ### what the wire path checks after rebuilding -/

mutual
def DTy.size : DTy → Nat
  | .list item _ _ => item.size + 1
  | .map k v _ _ => k.size + v.size + 1
  | .obj o => o.size + 1
  | .oneOf _ _ _ ms => DTy.sizeMembers ms + 1
  | .scope objs _ => DTy.sizeObjs objs + 1
  | _ => 1
termination_by structural t => t
def DObj.size : DObj → Nat
  | .mk _ _ props => DTy.sizeProps props + 1
termination_by structural t => t
def DTy.sizeProps : List (String × DProp) → Nat
  | [] => 0
  | (_, p) :: rest => p.size + DTy.sizeProps rest
termination_by structural t => t
def DProp.size : DProp → Nat
  | .mk ty _ _ _ _ _ _ _ _ _ => ty.size + 1
termination_by structural t => t
def DTy.sizeMembers : List (Key × DTy) → Nat
  | [] => 0
  | (_, t) :: rest => t.size + DTy.sizeMembers rest
termination_by structural t => t
def DTy.sizeObjs : List (String × DObj) → Nat
  | [] => 0
  | (_, o) :: rest => o.size + DTy.sizeObjs rest
termination_by structural t => t
end

def DObj.id : DObj → String | .mk id _ _ => id
def DObj.props : DObj → List (String × DProp) | .mk _ _ ps => ps
def DProp.ty : DProp → DTy | .mk t _ _ _ _ _ _ _ _ _ => t

/-- the properties a one-of member resolves to (`typeValue.Properties()`), `none` when that call
    panics (unlinked reference, missing root) -/
def memberProps (env : List (String × DObj)) : DTy → Option (List (String × DProp))
  | .obj o => some o.props
  | .ref id ns _ => if ns == "" then (lookupS id env).map (·.props) else none
  | .scope objs root => (lookupS root objs).map (·.props)
  | _ => none

/-- `ReflectedType().Kind()` of the discriminator property equals the kind of the one-of's key -/
def discKindOK (intKey : Bool) : DTy → Bool
  | .int _ _ _ | .enumInt _ _ => intKey
  | .str _ _ _ | .enumStr _ => !intKey
  | _ => false

/-- `validateSubtypeDiscriminatorInlineFields` for one member -/
def memberConsistent (env : List (String × DObj)) (intKey : Bool) (disc : String) (inlined : Bool) (m : DTy) : Bool :=
  match memberProps env m with
  | none => false
  | some props =>
    match lookupS disc props with
    | none => !inlined
    | some p => inlined && discKindOK intKey p.ty

mutual
/-- the conditions of the wire path that `WF` does not speak about: root object IDs equal their
    keys, no reference leaves the scope's own namespace, one-of members agree with the inlining
    flag. `env` = objects of the nearest enclosing scope. -/
def extraOK (env : List (String × DObj)) : DTy → Bool
  | .list item _ _ => extraOK env item
  | .map k v _ _ => extraOK env k && extraOK env v
  | .obj o => extraObj env o
  | .oneOf ik d inl ms => extraMembers env ms && ms.all fun m => memberConsistent env ik d inl m.2
  | .ref _ ns _ => ns == ""
  | .scope objs root =>
    (match lookupS root objs with
     | some o => o.id == root
     | none => false) && extraObjs objs objs
  | _ => true
termination_by structural t => t
def extraObj (env : List (String × DObj)) : DObj → Bool
  | .mk _ _ props => extraProps env props
termination_by structural t => t
def extraProps (env : List (String × DObj)) : List (String × DProp) → Bool
  | [] => true
  | (_, p) :: rest => extraProp env p && extraProps env rest
termination_by structural t => t
def extraProp (env : List (String × DObj)) : DProp → Bool
  | .mk ty _ _ _ _ _ _ _ _ _ => extraOK env ty
termination_by structural t => t
def extraMembers (env : List (String × DObj)) : List (Key × DTy) → Bool
  | [] => true
  | (_, t) :: rest => extraOK env t && extraMembers env rest
termination_by structural t => t
def extraObjs (env : List (String × DObj)) : List (String × DObj) → Bool
  | [] => true
  | (_, o) :: rest => extraObj env o && extraObjs env rest
termination_by structural t => t
end

/-- What `linkUnserializedScope` verifies: every scope has its root object under the root's own
    ID, every reference is in the scope's own namespace and resolves, one-of members are
    consistent with `discriminator_inlined`, every default decodes. -/
def linkCheck (jd : JD) (s : DTy) : Bool :=
  wfB (s.size + 1) [] (forget jd s) && extraOK [] s

/-- `UnserializeScope` -/
def unserializeScope (x : Ext) (jd : JD) (fuel : Nat) (w : V) : Out DTy :=
  match rebuild x fuel w with
  | .ok s => if linkCheck jd s then .ok s else .plain
  | o => o

def DStep.scopes (s : DStep) : List DTy :=
  s.input :: (s.outputs.map (·.2.schema) ++ s.handlers.map (·.2.data) ++ s.emitters.map (·.2.data))

def linkCheckSchema (jd : JD) (s : DSchema) : Bool :=
  s.all fun st => st.2.scopes.all (linkCheck jd)

/-- `UnserializeSchema` (and `Client.ReadSchema` after the hello message is decoded) -/
def unserializeSchema (x : Ext) (jd : JD) (fuel : Nat) (w : V) : Out DSchema :=
  match rebuildSchema x fuel w with
  | .ok s => if linkCheckSchema jd s then .ok s else .plain
  | o => o

/-! ### which schemas can describe themselves (what the meta-schema's Serialize accepts) -/

def idOK (x : Ext) (s : String) : Bool :=
  1 ≤ s.utf8ByteSize && s.utf8ByteSize ≤ 255 && x.reMatch Meta.idPattern s

def nonEmpty (o : Option String) : Bool :=
  match o with
  | none => true
  | some s => 1 ≤ s.utf8ByteSize

def dispOK (d : Disp) : Bool := nonEmpty d.name && nonEmpty d.desc && nonEmpty d.icon
def optDispOK : Option Disp → Bool
  | none => true
  | some d => dispOK d

def lenOK : Option Int → Bool
  | none => true
  | some n => 0 ≤ n && n ≤ maxInt64

/-- an `*int64` holds an int64 -/
def i64OK : Option Int → Bool
  | none => true
  | some n => inInt64 n

def unitsOK : Option Units → Bool
  | none => true
  | some u => (u.mults.all fun m => 1 ≤ m.1 && m.1 ≤ maxInt64) && decide ((u.mults.map (·.1)).Nodup)

mutual
/-- `describable x t`: the description of `t` is accepted by the meta-schema (IDs match the ID
    pattern, display strings and property names are non-empty, length bounds are not negative,
    enums are not empty, unit multipliers are positive, map keys are integers or strings, one-of
    members are objects, references or scopes, string patterns compile), and the lists that stand
    for Go maps (enum values, properties, one-of members, scope objects, multipliers) have
    pairwise distinct keys. -/
def describable (x : Ext) : DTy → Bool
  | .int a b u => i64OK a && i64OK b && unitsOK u
  | .float _ _ u => unitsOK u
  | .str a b p => lenOK a && lenOK b && (match p with | none => true | some p => x.reCompiles p)
  | .bool | .pattern | .any => true
  | .enumInt vs u =>
    !vs.isEmpty && vs.all (fun v => inInt64 v.1 && dispOK v.2) && decide ((vs.map (·.1)).Nodup) && unitsOK u
  | .enumStr vs => !vs.isEmpty && vs.all (fun v => dispOK v.2) && decide ((vs.map (·.1)).Nodup)
  | .list item a b => describable x item && lenOK a && lenOK b
  | .map k v a b =>
    (match k with | .int _ _ _ | .str _ _ _ => true | _ => false) &&
    describable x k && describable x v && lenOK a && lenOK b
  | .obj o => describableObj x o
  | .oneOf ik _ _ ms =>
    decide ((ms.map (·.1)).Nodup) && ms.all (fun m => match m.1 with | .i _ => ik | .s _ => !ik) &&
    describableMembers x ms
  | .ref id _ d => idOK x id && optDispOK d
  | .scope objs root => idOK x root && decide ((objs.map (·.1)).Nodup) && describableObjs x objs
termination_by structural t => t
def describableObj (x : Ext) : DObj → Bool
  | .mk id _ props => idOK x id && decide ((props.map (·.1)).Nodup) && describableProps x props
termination_by structural t => t
def describableProps (x : Ext) : List (String × DProp) → Bool
  | [] => true
  | (n, p) :: rest => 1 ≤ n.utf8ByteSize && describableProp x p && describableProps x rest
termination_by structural t => t
def describableProp (x : Ext) : DProp → Bool
  | .mk ty d _ _ _ _ _ _ _ _ => describable x ty && optDispOK d
termination_by structural t => t
def describableMembers (x : Ext) : List (Key × DTy) → Bool
  | [] => true
  | (k, t) :: rest =>
    (match k with | .i n => inInt64 n | .s _ => true) &&
    (match t with | .obj _ | .ref _ _ _ | .scope _ _ => true | _ => false) &&
    describable x t && describableMembers x rest
termination_by structural t => t
def describableObjs (x : Ext) : List (String × DObj) → Bool
  | [] => true
  | (n, o) :: rest => idOK x n && describableObj x o && describableObjs x rest
termination_by structural t => t
end

def DTy.isScope : DTy → Bool
  | .scope _ _ => true
  | _ => false

/-- a data schema: a describable scope -/
def describableData (x : Ext) (t : DTy) : Bool := t.isScope && describable x t

def describableSignal (x : Ext) (kv : String × DSignal) : Bool :=
  idOK x kv.1 && idOK x kv.2.id && describableData x kv.2.data && optDispOK kv.2.disp

def describableOutput (x : Ext) (kv : String × DOutput) : Bool :=
  idOK x kv.1 && describableData x kv.2.schema && optDispOK kv.2.disp

def describableStep (x : Ext) (kv : String × DStep) : Bool :=
  idOK x kv.1 && idOK x kv.2.id && describableData x kv.2.input && optDispOK kv.2.disp &&
  decide ((kv.2.outputs.map (·.1)).Nodup) && decide ((kv.2.handlers.map (·.1)).Nodup) &&
  decide ((kv.2.emitters.map (·.1)).Nodup) &&
  kv.2.outputs.all (describableOutput x) &&
  kv.2.handlers.all (describableSignal x) && kv.2.emitters.all (describableSignal x)

def describableSchema (x : Ext) (s : DSchema) : Bool :=
  decide ((s.map (·.1)).Nodup) && s.all (describableStep x)

end Arca
