import ArcaModel.Model.Basic
/-
  Model of the type-definition generator `cmd/arcaflow-codegen/gen.go` (property C19).

  What the Go program does (after the `fix:` commits; see `mustGenerateTypeDef`):

    * `yaml.Unmarshal` reads `steps.create.input.objects` into a Go map
      `object key -> {properties: map property key -> {type: {type_id, id}}}`.  Everything else in
      the file (the `id:` of an object, display, required, ...) is never looked at.
    * the object keys are sorted (`sort.Strings`); an object whose key equals `os.Args[2]` is
      skipped, but only if that argument is present;
    * per object: `type <Title(key)> struct {`, then, with the property keys sorted, one line
      `\t<Title(p)> <parseType(varType)> `json:"<p>"`` per property, where `varType` is
      `Title(type.id)` for `type_id == "ref"` and `type_id` otherwise, and `parseType` maps
      `integer -> int64`, `float -> float64`, `map -> map[any]any`, anything else to itself;
    * the text is given to `go/format.Source`; if that fails the program panics (`check(err)`).

  The document of the model is an association list IN THE ORDER GIVEN.  The order stands for one
  possible Go map iteration order and is an input of the model (C19 says it must not matter).
  Keys of a Go map are distinct; the model is defined on all lists and distinctness is an explicit
  hypothesis of the theorems that need it.

  Domain of faithfulness.  `Title` is `cases.Title(language.Und, cases.NoLower)`.  On a string made
  of ASCII letters, digits and `_` (one "word" for the Unicode word breaker) it upper-cases the
  first letter and leaves everything else alone - that is `title` below.  For other strings (several
  words, non-ASCII letters with special title forms) `title` is NOT claimed to agree with x/text.
  Likewise `format.Source` is modelled only by "is every emitted name a Go identifier and every
  emitted type empty, a Go identifier or `map[any]any`": exact for the strings the generator can
  emit from identifier-like inputs, conservative (it may say `panic` where gofmt would accept,
  e.g. a type `a.b`) outside.  Core Lean only (linked into the native driver).
-/
namespace Arca.Codegen

/-! ### Documents and declarations -/

/-- The `type:` block of a property: `type_id` and, for references, `id` (empty when absent). -/
structure TypeDesc where
  typeId : String
  refId : String := ""
deriving DecidableEq, Repr, Inhabited

/-- properties of one object: `(property key, type)` in some map iteration order -/
abbrev Props := List (String × TypeDesc)

/-- `steps.create.input.objects`: `(object key, properties)` in some map iteration order -/
abbrev Doc := List (String × Props)

/-- one emitted struct field: Go name, Go type, and the name inside the `json:"..."` tag -/
structure FieldDecl where
  name : String
  type : String
  tag : String
deriving DecidableEq, Repr, Inhabited

/-- one emitted `type <name> struct { ... }` -/
structure StructDecl where
  name : String
  fields : List FieldDecl
deriving DecidableEq, Repr, Inhabited

/-! ### Characters, identifiers, keywords -/

def isLower (c : Char) : Bool := decide (97 ≤ c.toNat) && decide (c.toNat ≤ 122)
def isUpper (c : Char) : Bool := decide (65 ≤ c.toNat) && decide (c.toNat ≤ 90)
def isLetter (c : Char) : Bool := isLower c || isUpper c
def isDigit (c : Char) : Bool := decide (48 ≤ c.toNat) && decide (c.toNat ≤ 57)
def isIdentStart (c : Char) : Bool := isLetter c || c == '_'
def isIdentPart (c : Char) : Bool := isIdentStart c || isDigit c

/-- ASCII upper-casing of one character -/
def upper (c : Char) : Char := if isLower c then Char.ofNat (c.toNat - 32) else c

def isIdentChars : List Char → Bool
  | [] => false
  | c :: cs => isIdentStart c && cs.all isIdentPart

/-- `[A-Za-z_][A-Za-z0-9_]*` - the "valid identifier" of C19 (object and property names) -/
def isIdent (s : String) : Bool := isIdentChars s.toList

/-- the 25 Go keywords -/
def keywords : List String :=
  ["break", "case", "chan", "const", "continue", "default", "defer", "else", "fallthrough", "for",
   "func", "go", "goto", "if", "import", "interface", "map", "package", "range", "return",
   "select", "struct", "switch", "type", "var"]

def keywordChars : List (List Char) := keywords.map String.toList

def isKeyword (s : String) : Bool := keywordChars.contains s.toList

/-- something the Go parser accepts as a declared name / a type name -/
def goIdent (s : String) : Bool := isIdent s && !isKeyword s

/-! ### `cases.Title(language.Und, cases.NoLower)` on identifier-like strings -/

/-- upper-case the first ASCII letter, keep the rest (`_x1y -> _X1y`, `aB -> AB`, `_1 -> _1`) -/
def titleChars : List Char → List Char
  | [] => []
  | c :: cs => if isLetter c then upper c :: cs else c :: titleChars cs

def title (s : String) : String := String.ofList (titleChars s.toList)

/-! ### Type mapping (`varType`, `parseType`) -/

def parseType (t : String) : String :=
  if t = "integer" then "int64"
  else if t = "float" then "float64"
  else if t = "map" then "map[any]any"
  else t

def varType (t : TypeDesc) : String :=
  if t.typeId = "ref" then title t.refId else t.typeId

def goType (t : TypeDesc) : String := parseType (varType t)

/-! ### `sort.Strings` on the keys (insertion sort on `(key, payload)` pairs) -/

def insertByKey {α : Type} (x : String × α) : List (String × α) → List (String × α)
  | [] => [x]
  | y :: ys => if x.1 ≤ y.1 then x :: y :: ys else y :: insertByKey x ys

/-- sort an association list by key (byte-wise = code-point-wise lexicographic order, as
    `sort.Strings`); keys of a Go map are distinct, so stability is irrelevant -/
def sortByKey {α : Type} : List (String × α) → List (String × α)
  | [] => []
  | x :: xs => insertByKey x (sortByKey xs)

/-! ### The generator -/

def fieldOf (p : String × TypeDesc) : FieldDecl := ⟨title p.1, goType p.2, p.1⟩

def structOf (o : String × Props) : StructDecl := ⟨title o.1, (sortByKey o.2).map fieldOf⟩

/-- `len(os.Args) > 2 && o == os.Args[2]` -/
def ignored (ignore : Option String) (o : String) : Bool := ignore == some o

/-- the declarations written to the buffer, in order -/
def emitted (d : Doc) (ignore : Option String) : List StructDecl :=
  ((sortByKey d).filter (fun o => !ignored ignore o.1)).map structOf

/-- a type position `format.Source` accepts: nothing (the line is then an embedded field with a
    tag), an identifier, or the one composite type the generator can produce -/
def typeOk (t : String) : Bool := t == "" || t == "map[any]any" || goIdent t

def fieldOk (f : FieldDecl) : Bool := goIdent f.name && typeOk f.type

def structOk (s : StructDecl) : Bool := goIdent s.name && s.fields.all fieldOk

/-- `mustGenerateTypeDef`: the declarations, or `panic` when `format.Source` rejects the text.
    `ignore = none`: the program was run without the optional argument. -/
def generate (d : Doc) (ignore : Option String) : Out (List StructDecl) :=
  let ds := emitted d ignore
  if ds.all structOk then .ok ds else .panic

/-! ### The text handed to `format.Source` -/

/-- `args` are `os.Args[1:]`: the schema file name and, optionally, the object to ignore -/
def ignoreArg (args : List String) : Option String := args[1]?

def typeDefImports : String :=
  "package arcaflow_plugin_service\n\nimport (\n    v1 \"k8s.io/api/core/v1\"\n    metav1 \"k8s.io/apimachinery/pkg/apis/meta/v1\"\n)\n"

def header (args : List String) : String :=
  "// Code generated by \"gen " ++ " ".intercalate args ++ "\"\n"

def renderField (f : FieldDecl) : String :=
  "\t" ++ f.name ++ " " ++ f.type ++ " `json:\"" ++ f.tag ++ "\"`\n"

def renderStruct (s : StructDecl) : String :=
  "\ntype " ++ s.name ++ " struct {\n" ++ String.join (s.fields.map renderField) ++ "}\n"

/-- exactly the bytes accumulated in `bft` before `format.Source` -/
def renderRaw (args : List String) (ds : List StructDecl) : String :=
  header args ++ typeDefImports ++ String.join (ds.map renderStruct)

/-- The whole run on `os.Args[1:] = args`: the source text whose gofmt-ed form is written to
    `typedef_output.go` (gofmt is a function of this text, so equal texts give equal files).
    Without a file name `os.Args[1]` panics. -/
def generateRaw (d : Doc) (args : List String) : Out String :=
  match args with
  | [] => .panic
  | _ :: _ =>
    match generate d (ignoreArg args) with
    | .ok ds => .ok (renderRaw args ds)
    | .err e => .err e
    | .panic => .panic
    | .fuel => .fuel

end Arca.Codegen
