/-
  The ATP server (`atp/server.go`, `RunATPServer`) as a labelled transition system.

  Actors: the read loop (`run` / `runATPReadLoop`), the closure handler (`handleClosure`), one
  goroutine per accepted work-start (`runStep`) and per accepted signal, the closer goroutine
  (`wg.Wait(); close(workDone)`), and `RunATPServer` itself (returns after `wg.Wait()`).
  Shared state: the `workDone` channel (bounded FIFO of capacity `cap`, open/closed), the output
  (messages written under the encoder mutex, as a list; can be broken by the client), the WaitGroup
  counter, `runningSteps`.
  Environment: an arbitrary client (any sequence of well-formed or malformed items, end of input at
  any moment, output closed at any moment, context cancellation) and arbitrary plugin code (a step
  is rejected before its handler runs, or its handler returns output, returns undeclared/invalid
  output, or panics, at any time).

  The rules are parametrised by `Cfg`: `repaired` is the code as it is after the `fix:` commits,
  `pinned` keeps the rules of the tree before them (used only to document what they fixed).
  Every send on `workDone` checks the `closed` flag and every signal call checks for the nil
  dereference: in both configurations a violation sets `crashed`; `Props/C07.lean` proves that
  `crashed` is unreachable under `repaired`.

  Core Lean only (linked into the native driver).
-/
namespace Arca.AtpServer

/-- run IDs are opaque; `0` stands for the empty string (Go's zero value, "missing run ID") -/
abbrev Run := Nat
/-- position of a goroutine in `State.gs` = identity of an accepted work-start or signal -/
abbrev Gid := Nat

structure Cfg where
  /-- capacity of `workDone` -/
  cap : Nat
  /-- pinned: `run()`'s deferred function closes `workDone` as soon as the read loop ends;
      repaired: a closer goroutine closes it when the WaitGroup counter has reached zero -/
  closeAtLoopEnd : Bool
  /-- repaired: `handleClosure` keeps receiving (without sending) after a server-fatal error, a
      failed write or cancellation; pinned: it returns -/
  drainAfterStop : Bool
  /-- repaired: the read loop decodes into a fresh variable per message -/
  freshDecode : Bool
  /-- repaired: an unknown signal ID is an error and a panicking signal handler is recovered;
      pinned: both end the process -/
  signalGuarded : Bool
deriving DecidableEq, Repr, Hashable

def repaired : Cfg := ⟨3, false, true, true, true⟩
def pinned : Cfg := ⟨3, true, false, false, false⟩

/-! ### Messages -/

/-- what the two inner `cbor.Unmarshal` calls make of the `data` bytes of a runtime message -/
structure Payload where
  /-- as `WorkStartMessage`: `none` = error, `some e` = decodes, `e` says whether `StepID == ""` -/
  ws : Option Bool
  /-- as `SignalMessage`: decodes or not -/
  sg : Bool
deriving DecidableEq, Repr, Hashable

/-- an empty `RawMessage` (field absent): both `Unmarshal` calls fail with EOF -/
def Payload.absent : Payload := ⟨none, false⟩

/-- one CBOR item that `Decode(&DecodedRuntimeMessage)` accepts; each field may be absent -/
structure Wire where
  id : Option Nat
  run : Option Run
  data : Option Payload
deriving DecidableEq, Repr, Hashable

/-- the Go struct after `Decode` -/
structure Decoded where
  id : Nat
  run : Run
  data : Payload
deriving DecidableEq, Repr, Hashable

def Decoded.zero : Decoded := ⟨0, 0, Payload.absent⟩

/-- fxamacker/cbor leaves struct fields that are absent from the input unchanged -/
def fill (base : Decoded) (w : Wire) : Decoded :=
  ⟨w.id.getD base.id, w.run.getD base.run, w.data.getD base.data⟩

/-- `Decode` in the read loop: into a fresh variable (repaired) or into the variable that still
    holds the previous message (pinned) -/
def decode (c : Cfg) (prev : Decoded) (w : Wire) : Decoded :=
  fill (if c.freshDecode then Decoded.zero else prev) w

/-- what the client put on the wire, at message level: a well-formed item, or anything on which
    `Decode` fails (malformed CBOR, wrongly typed envelope field, truncated item) -/
inductive Item where
  | msg (w : Wire)
  | bad
deriving DecidableEq, Repr, Hashable

/-- who reported an error (ghost) -/
inductive Origin where
  | loop
  | step (g : Gid)
  | signal (g : Gid)
deriving DecidableEq, Repr, Hashable

/-- a `ServerError` travelling over `workDone` -/
structure SErr where
  run : Run
  stepFatal : Bool
  serverFatal : Bool
  origin : Origin
deriving DecidableEq, Repr, Hashable

/-- a message written to the client; `g` is ghost -/
inductive OutMsg where
  | hello
  | workDone (run : Run) (g : Gid)
  | error (e : SErr)
deriving DecidableEq, Repr, Hashable

/-! ### Control state -/

inductive LoopPc where
  /-- before the start message has been read and the hello message written -/
  | start
  /-- about to call `Decode` -/
  | idle
  /-- has an error to send on `workDone`; `stop` = the loop ends afterwards -/
  | sending (e : SErr) (stop : Bool)
  /-- the loop has ended, `run()`'s deferred function has not run yet -/
  | ending
  /-- `run()` has returned (`wg.Done()` performed) -/
  | ended
deriving DecidableEq, Repr, Hashable

inductive GKind where
  | step
  | signal
deriving DecidableEq, Repr, Hashable

inductive GPc where
  /-- goroutine exists (counted in the WaitGroup), `CallStep`/`CallSignal` not yet decided -/
  | spawned
  /-- inside the step handler: waits for the plugin code (environment) -/
  | entered
  /-- `CallStep` returned output: about to encode work-done under the encoder mutex -/
  | writing
  /-- has an error to send on `workDone` -/
  | failing
  /-- finished (`wg.Done()` performed): work-done written / signal handled -/
  | doneOk
  /-- finished: the write of work-done failed (output broken) -/
  | doneLost
  /-- finished: the error has been sent on `workDone` -/
  | doneErr
deriving DecidableEq, Repr, Hashable

def GPc.done : GPc → Bool
  | .doneOk | .doneLost | .doneErr => true
  | _ => false

structure G where
  kind : GKind
  run : Run
  /-- index (in reading order) of the input item that spawned it; used by the trace checker -/
  src : Nat
  pc : GPc
deriving DecidableEq, Repr, Hashable

inductive HPc where
  /-- in the `select` -/
  | idle
  /-- has received `e`, has not yet acted on it -/
  | holding (e : SErr)
  /-- `handleClosure` has returned -/
  | done
deriving DecidableEq, Repr, Hashable

structure State where
  /-- items offered by the client and not yet consumed by `Decode` -/
  input : List Item
  /-- number of items consumed -/
  nread : Nat
  /-- the client has closed its end: `Decode` on empty input fails with EOF -/
  inputClosed : Bool
  /-- the server has closed stdin (client-done, or the handler after a fatal error) -/
  stdinClosed : Bool
  /-- pinned only: the decode target that survives between messages -/
  last : Decoded
  loop : LoopPc
  /-- keys of `runningSteps` -/
  running : List Run
  gs : List G
  /-- WaitGroup counter -/
  wg : Nat
  /-- buffer of `workDone` -/
  queue : List SErr
  closed : Bool
  h : HPc
  /-- the handler no longer sends (repaired rules only) -/
  stopped : Bool
  cancelled : Bool
  /-- the `[]*ServerError` the handler has collected -/
  errors : List SErr
  /-- writes to the client fail -/
  outBroken : Bool
  /-- every message written so far, in the order of the encoder mutex -/
  written : List OutMsg
  /-- how many of them the client-side observer has taken -/
  seen : Nat
  returned : Bool
  /-- send on a closed channel / nil dereference / unrecovered panic: the process is gone -/
  crashed : Bool
deriving DecidableEq, Repr, Hashable

def State.init : State :=
  { input := [], nread := 0, inputClosed := false, stdinClosed := false, last := Decoded.zero,
    loop := .start, running := [], gs := [], wg := 1, queue := [], closed := false, h := .idle,
    stopped := false, cancelled := false, errors := [], outBroken := false, written := [],
    seen := 0, returned := false, crashed := false }

/-! ### Actions -/

/-- outcome of `CallStep` before the handler runs -/
inductive Pre where
  /-- unknown step or input rejected by the step's schema: error without calling the handler -/
  | reject
  | enter
deriving DecidableEq, Repr, Hashable

/-- what the handler does -/
inductive Beh where
  /-- declared output with valid data (success or a declared error output): work-done -/
  | ok
  /-- undeclared output ID or data the output schema rejects: `CallStep` returns an error -/
  | fail
  /-- the handler panics; `runStep` recovers and reports -/
  | panic
deriving DecidableEq, Repr, Hashable

/-- outcome of `CallSignal` -/
inductive SigRes where
  | ok
  /-- data rejected by the signal's schema -/
  | err
  /-- the step declares no such signal -/
  | unknown
  /-- the handler panics -/
  | panic
deriving DecidableEq, Repr, Hashable

inductive Act where
  -- the client
  | offer (it : Item)
  | closeInput
  | breakOutput
  | cancel
  | observe
  -- plugin code
  | exit (g : Gid) (b : Beh)
  -- the server
  | loopRead
  | loopReadErr
  | loopSend
  | loopEnd
  | gStart (g : Gid) (p : Pre)
  | gWrite (g : Gid)
  | gSend (g : Gid)
  | sigRun (g : Gid) (r : SigRes)
  | hRecv
  | hEmit
  | hCancel
  | close
  | ret
deriving DecidableEq, Repr, Hashable

/-- actions of the environment that add work or faults (everything else is progress) -/
def Act.isEnvInput : Act → Bool
  | .offer _ | .closeInput | .breakOutput | .cancel | .observe => true
  | _ => false

/-! ### Rules -/

def fatalErr : SErr := ⟨0, true, true, .loop⟩

def spawn (s : State) (k : GKind) (r : Run) (src : Nat) : State :=
  { s with wg := s.wg + 1, gs := s.gs ++ [⟨k, r, src, .spawned⟩] }

/-- `onRuntimeMessageReceived`; `src` is the index of the item -/
def react (s : State) (src : Nat) (d : Decoded) : State :=
  if d.id = 1 then
    match d.data.ws with
    | none => { s with loop := .sending ⟨d.run, true, false, .loop⟩ false }
    | some stepEmpty =>
      if d.run = 0 ∨ stepEmpty = true then
        { s with loop := .sending ⟨0, true, false, .loop⟩ false }
      else
        spawn { s with running := d.run :: s.running } .step d.run src
  else if d.id = 3 then
    if d.data.sg = false then { s with loop := .sending ⟨d.run, false, false, .loop⟩ false }
    else if d.run = 0 then { s with loop := .sending ⟨0, false, false, .loop⟩ false }
    else if s.running.contains d.run = false then
      { s with loop := .sending ⟨d.run, false, false, .loop⟩ false }
    else spawn s .signal d.run src
  else if d.id = 4 then
    { s with stdinClosed := true, loop := .ending }
  else
    { s with loop := .sending ⟨0, false, false, .loop⟩ false }

/-- the read loop consumes the next item -/
def loopRead (c : Cfg) (s : State) : Option State :=
  match s.input with
  | [] => none
  | it :: rest =>
    let s1 := { s with input := rest, nread := s.nread + 1 }
    match s.loop, it with
    | .start, .msg _ =>
      if s.outBroken then some { s1 with loop := .sending fatalErr true }
      else some { s1 with written := s.written ++ [.hello], loop := .idle }
    | .start, .bad => some { s1 with loop := .sending fatalErr true }
    | .idle, .msg w =>
      let d := decode c s.last w
      some (react { s1 with last := d } s.nread d)
    | .idle, .bad => some { s1 with loop := .sending fatalErr true }
    | _, _ => none

/-- `Decode` fails without consuming an item: end of input, or stdin closed by the server -/
def loopReadErr (s : State) : Option State :=
  if s.stdinClosed = true ∨ (s.input = [] ∧ s.inputClosed = true) then
    match s.loop with
    | .start => some { s with loop := .sending fatalErr true }
    | .idle => some { s with loop := .sending fatalErr true }
    | _ => none
  else none

/-- a send on `workDone` by anybody: crash when closed, blocked when full -/
def chanSend (c : Cfg) (s : State) (e : SErr) : Option State :=
  if s.closed then some { s with crashed := true }
  else if s.queue.length < c.cap then some { s with queue := s.queue ++ [e] }
  else none

def loopSend (c : Cfg) (s : State) : Option State :=
  match s.loop with
  | .sending e stop =>
    (chanSend c s e).map fun s1 =>
      if s1.crashed then s1 else { s1 with loop := if stop then .ending else .idle }
  | _ => none

/-- `run()`'s deferred function -/
def loopEnd (c : Cfg) (s : State) : Option State :=
  match s.loop with
  | .ending =>
    some { s with loop := .ended, wg := s.wg - 1, closed := if c.closeAtLoopEnd then true else s.closed }
  | _ => none

def setPc (s : State) (g : Gid) (x : G) (pc : GPc) : State :=
  { s with gs := s.gs.set g { x with pc := pc } }

def gStart (s : State) (g : Gid) (p : Pre) : Option State :=
  match s.gs[g]? with
  | some x =>
    if x.kind = .step ∧ x.pc = .spawned then
      some (setPc s g x (match p with | .reject => .failing | .enter => .entered))
    else none
  | none => none

def gExit (s : State) (g : Gid) (b : Beh) : Option State :=
  match s.gs[g]? with
  | some x =>
    if x.kind = .step ∧ x.pc = .entered then
      some (setPc s g x (match b with | .ok => .writing | _ => .failing))
    else none
  | none => none

/-- `sendRuntimeMessage(work-done)` under the encoder mutex, then `wg.Done()` -/
def gWrite (s : State) (g : Gid) : Option State :=
  match s.gs[g]? with
  | some x =>
    if x.kind = .step ∧ x.pc = .writing then
      if s.outBroken then some { setPc s g x .doneLost with wg := s.wg - 1 }
      else some { setPc s g x .doneOk with wg := s.wg - 1, written := s.written ++ [.workDone x.run g] }
    else none
  | none => none

def gErr (g : Gid) (x : G) : SErr :=
  match x.kind with
  | .step => ⟨x.run, true, false, .step g⟩
  | .signal => ⟨x.run, false, false, .signal g⟩

/-- the goroutine reports its error on `workDone`, then `wg.Done()` -/
def gSend (c : Cfg) (s : State) (g : Gid) : Option State :=
  match s.gs[g]? with
  | some x =>
    if x.pc = .failing then
      (chanSend c s (gErr g x)).map fun s1 =>
        if s1.crashed then s1 else { setPc s1 g x .doneErr with wg := s1.wg - 1 }
    else none
  | none => none

def sigRun (c : Cfg) (s : State) (g : Gid) (r : SigRes) : Option State :=
  match s.gs[g]? with
  | some x =>
    if x.kind = .signal ∧ x.pc = .spawned then
      match r with
      | .ok => some { setPc s g x .doneOk with wg := s.wg - 1 }
      | .err => some (setPc s g x .failing)
      | .unknown | .panic =>
        if c.signalGuarded then some (setPc s g x .failing) else some { s with crashed := true }
    else none
  | none => none

def hRecv (s : State) : Option State :=
  match s.h with
  | .idle =>
    match s.queue with
    | e :: rest => some { s with queue := rest, h := .holding e }
    | [] => if s.closed then some { s with h := .done } else none
  | _ => none

/-- the handler acts on the error it holds -/
def hEmit (c : Cfg) (s : State) : Option State :=
  match s.h with
  | .holding e =>
    let s1 := { s with errors := s.errors ++ [e] }
    if s.stopped then some { s1 with h := .idle }
    else
      let s2 := if s.outBroken then s1 else { s1 with written := s.written ++ [.error e] }
      if s.outBroken = true ∨ e.serverFatal = true then
        if c.drainAfterStop then some { s2 with stdinClosed := true, stopped := true, h := .idle }
        else some { s2 with stdinClosed := true, h := .done }
      else some { s2 with h := .idle }
  | _ => none

/-- the `ctx.Done()` branch of the `select` -/
def hCancel (c : Cfg) (s : State) : Option State :=
  if s.cancelled = true ∧ s.h = .idle ∧ s.stopped = false then
    if c.drainAfterStop then some { s with stopped := true } else some { s with h := .done }
  else none

/-- the closer goroutine (repaired rules only) -/
def closeChan (c : Cfg) (s : State) : Option State :=
  if c.closeAtLoopEnd = false ∧ s.wg = 0 ∧ s.closed = false then some { s with closed := true }
  else none

def doRet (s : State) : Option State :=
  if s.h = .done ∧ s.wg = 0 ∧ s.returned = false then some { s with returned := true } else none

def doObserve (s : State) : Option State :=
  if s.seen < s.written.length then some { s with seen := s.seen + 1 } else none

/-- one transition; `none` = not enabled. Nothing happens after a crash. -/
def step? (c : Cfg) (s : State) (a : Act) : Option State :=
  if s.crashed then none else
  match a with
  | .offer it => if s.inputClosed then none else some { s with input := s.input ++ [it] }
  | .closeInput => some { s with inputClosed := true }
  | .breakOutput => some { s with outBroken := true }
  | .cancel => some { s with cancelled := true }
  | .observe => doObserve s
  | .exit g b => gExit s g b
  | .loopRead => loopRead c s
  | .loopReadErr => loopReadErr s
  | .loopSend => loopSend c s
  | .loopEnd => loopEnd c s
  | .gStart g p => gStart s g p
  | .gWrite g => gWrite s g
  | .gSend g => gSend c s g
  | .sigRun g r => sigRun c s g r
  | .hRecv => hRecv s
  | .hEmit => hEmit c s
  | .hCancel => hCancel c s
  | .close => closeChan c s
  | .ret => doRet s

inductive Reachable (c : Cfg) : State → Prop where
  | init : Reachable c State.init
  | step {s s' : State} {a : Act} : Reachable c s → step? c s a = some s' → Reachable c s'

/-- run a list of actions -/
def runActs (c : Cfg) (s : State) : List Act → Option State
  | [] => some s
  | a :: rest => (step? c s a).bind fun s1 => runActs c s1 rest

theorem reachable_runActs {c : Cfg} {s s' : State} (h : Reachable c s) :
    ∀ {as : List Act}, runActs c s as = some s' → Reachable c s' := by
  intro as
  induction as generalizing s with
  | nil => intro e; simp [runActs] at e; exact e ▸ h
  | cons a rest ih =>
    intro e
    simp only [runActs] at e
    cases hs : step? c s a with
    | none => simp [hs] at e
    | some s1 =>
      simp [hs] at e
      exact ih (Reachable.step h hs) e

/-- the server-internal actions enabled in `s` (finite: used by the trace checker and by the
    statement of deadlock freedom) -/
def internalActs (s : State) : List Act :=
  [.loopRead, .loopReadErr, .loopSend, .loopEnd, .hRecv, .hEmit, .hCancel, .close] ++
  (List.range s.gs.length).flatMap fun g =>
    [.gStart g .reject, .gWrite g, .gSend g, .sigRun g .ok, .sigRun g .err, .sigRun g .unknown,
     .sigRun g .panic]

end Arca.AtpServer
