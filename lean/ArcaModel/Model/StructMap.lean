import ArcaModel.Model.Ops
/-
  Struct-mapped objects (`NewStructMappedObjectSchema[T]`, `NewTypedObject[T]`, typed scopes):
  the map -> struct -> map leg of schema/object.go, as the code does it through `reflect`.

  * `GoTy`, `Field`, `StructTy`: the Go struct type `T` as `reflect` shows it (field name, `json`
    tag, exportedness, static type, zero value); `fieldFor` is `buildObjectFieldCache`.
  * `SV`: Go values that contain structs and pointers (everything else reuses `V`).
  * `toStruct` (`unserializeToStruct`), `fromStruct` (`getFieldReflection` + the
    treat-empty-as-default test of `extractPropertyValue` / `validateStruct`), `subDefS`
    (`applySubObjectDefaultValues`), `construct` (`NewStructMappedObjectSchema`), and the three
    operations `srun` over schema trees whose leaves are map-backed schemas handed to `run`.
  * `runOneOfS`: one-ofs whose members are struct-mapped objects (`NewOneOfStringSchema[any]` /
    `NewOneOfIntSchema[any]`). Unserialize routes by the discriminator of the raw map and returns
    the member's struct; Validate and Serialize route through `findUnderlyingType`, by the dynamic
    type of the value - the LAST member of that type in the iteration order of the members map
    (`members` lists them in that order, so with two members of one struct type the outcome depends
    on the order; `wfSB` asks pairwise distinct types); Serialize attaches the discriminator unless
    the member serialized one.

  The model mirrors the code that exists, oddities included: a non-pointer field always counts as
  set; `reflect.Value.Convert` turns integers
  into one-rune strings; a property mapped to an unexported field is an error in Unserialize and a
  panic in Validate / Serialize; a disabled property reads as unset while its field holds the zero
  value.
  Core Lean only (this file is linked into the native driver).
-/
namespace Arca
namespace SM

/-! ### Go types and struct values -/

/-- static Go types of struct fields (and of what schemas unserialize to) -/
inductive GoTy where
  | bool
  | int (k : IKind)
  | float (k : FKind)
  | str
  /-- a defined type over a scalar (`type Name string`) -/
  | named (id : String) (u : GoTy)
  /-- `any` -/
  | iface
  | slice (e : GoTy)
  | map (k v : GoTy)
  | struct (id : String)
  | ptr (e : GoTy)
  /-- `*regexp.Regexp` -/
  | regex
deriving DecidableEq, Repr, Inhabited

namespace GoTy
/-- `reflect.Type.Kind() == reflect.Pointer` -/
def isPtr : GoTy → Bool
  | ptr _ | regex => true
  | _ => false
/-- `Type.Elem()` of a pointer type (the type itself otherwise) -/
def deref : GoTy → GoTy
  | ptr e => e
  | regex => struct "regexp.Regexp"
  | t => t
/-- underlying type -/
def under : GoTy → GoTy
  | named _ u => u
  | t => t
def isNamed : GoTy → Bool
  | named _ _ => true
  | _ => false
def isIntKind : GoTy → Bool
  | int _ => true
  | _ => false
end GoTy

/-- A Go value that may contain structs and pointers.
    * `val v`    : a value of the map-backed universe (`val .nil` is the nil interface)
    * `nilSlice`, `nilMap` : nil slices and maps (DeepEqual tells them from empty ones)
    * `nilPtr`, `ptr x` : pointers
    * `struct`   : a struct value with its fields in declaration order
    * `slice`, `map` : non-nil slices / maps whose elements contain structs -/
inductive SV where
  | val (v : V)
  | nilSlice
  | nilMap (sh : MapShape)
  | nilPtr
  | ptr (x : SV)
  | struct (id : String) (fields : List (String × SV))
  | slice (xs : List SV)
  | map (sh : MapShape) (kvs : List (V × SV))
deriving Repr, Inhabited

/-- one field of the Go struct type, as `reflect.Type.Field(i)` describes it; `zero` is
    `reflect.Zero(field.Type)` -/
structure Field where
  name : String
  /-- `field.Tag.Get("json")` -/
  tag : String
  exported : Bool
  ty : GoTy
  zero : SV
deriving Repr, Inhabited

structure StructTy where
  name : String
  fields : List Field
deriving Repr, Inhabited

/-- `strings.SplitN(jsonTag, ",", 2)[0]` when the tag is not empty -/
def tagKey (tag : String) : Option String :=
  if tag.isEmpty then none else some (String.ofList (tag.toList.takeWhile (· != ',')))

/-- `buildObjectFieldCache` for one property: the UNIQUE field whose json tag names the property
    (`FieldByNameFunc` reports no match when several fields match), else the field of that name. -/
def fieldFor (st : StructTy) (pid : String) : Option Field :=
  match st.fields.filter (fun f => tagKey f.tag == some pid) with
  | [f] => some f
  | _ => st.fields.find? (fun f => f.name == pid)

/-! ### schemas over struct types -/

mutual
/-- A schema tree with struct-mapped objects. `leaf` is any map-backed (closed) schema, run by
    `run`; `scope` is a scope whose root is the given schema (references are inlined by the
    harness; a scope matters because `applySubObjectDefaultValues` does not look through it);
    `obj` is `NewStructMappedObjectSchema[T]` with `T = st` or (`ptrT`) `T = *st`; `oneOf` is a
    one-of over struct-mapped members (a one-of whose members are all map-backed is a `leaf`). -/
inductive STy where
  | leaf (t : Ty)
  | list (item : STy) (min max : Option Int)
  | map (k : Ty) (v : STy) (min max : Option Int)
  | scope (t : STy)
  | obj (id : String) (st : StructTy) (ptrT : Bool) (props : List (String × SProp))
  /-- `NewOneOfStringSchema[any]` / `NewOneOfIntSchema[any]` whose members are struct-mapped objects -/
  | oneOf (intKey : Bool) (disc : String) (inlined : Bool) (members : List (Key × STy))
inductive SProp where
  | mk (ty : STy) (required : Bool) (requiredIf requiredIfNot conflicts : List String)
       (default : Option DefaultV) (disabled : Bool) (emptyIsDefault : Bool)
end

instance : Inhabited STy := ⟨.leaf .any⟩
instance : Inhabited SProp := ⟨.mk (.leaf .any) false [] [] [] none false false⟩

namespace SProp
def ty : SProp → STy | mk t _ _ _ _ _ _ _ => t
def disabled : SProp → Bool | mk _ _ _ _ _ _ d _ => d
def emptyIsDefault : SProp → Bool | mk _ _ _ _ _ _ _ e => e
/-- the presence rules and the default of the property as a `PropT` (its type is kept only when it
    is a leaf: `extractObjectDefaultValues` looks at it for the string quoting fallback) -/
def rules : SProp → PropT
  | mk t r ri rin c d dis _ => .mk (match t with | .leaf t => t | _ => .any) r ri rin c d dis
end SProp

def rulesOf (props : List (String × SProp)) : List (String × PropT) :=
  props.map fun kp => (kp.1, kp.2.rules)

/-- `ReflectedType()` of a map-backed schema -/
def tyRefl : Ty → GoTy
  | .int _ _ _ | .enumInt _ _ => .int .int64
  | .float _ _ _ => .float .f64
  | .str _ _ _ | .enumStr _ => .str
  | .bool => .bool
  | .pattern => .regex
  | .list item _ _ => .slice (tyRefl item)
  | .map k v _ _ => .map (tyRefl k) (tyRefl v)
  | .obj _ _ | .ref _ | .scope _ _ => .map .str .iface
  | .oneOf _ _ _ _ | .any => .iface

/-- `ReflectedType()` -/
def reflTy : STy → GoTy
  | .leaf t => tyRefl t
  | .list item _ _ => .slice (reflTy item)
  | .map k v _ _ => .map (tyRefl k) (reflTy v)
  | .scope t => reflTy t
  | .obj _ st ptrT _ => if ptrT then .ptr (.struct st.name) else .struct st.name
  | .oneOf _ _ _ _ => .iface

/-! ### `reflect.Value.Convert` on the modelled universe -/

/-- can a value of type `src` be converted to `dst` (`convertOp` finds a converter)? -/
def convOK (dst src : GoTy) : Bool :=
  if dst == src then true else
  match dst, src with
  | .iface, _ => true
  | _, .iface => false
  | _, _ =>
    match dst.under, src.under with
    | .int _, .int _ | .float _, .int _ | .float _, .float _ | .int _, .float _ | .str, .int _
    | .str, .str | .bool, .bool => true
    | _, _ => false

/-- two's-complement truncation to an integer kind -/
def wrapTo (k : IKind) (n : Int) : Int :=
  let m := n % (2 ^ k.bits : Int)
  if k.signed && m ≥ (2 ^ (k.bits - 1) : Int) then m - (2 ^ k.bits : Int) else m

/-- `uint64(f)` as compiled for amd64: below 2^63 it is `uint64(int64(f))`, otherwise
    `uint64(int64(f - 2^63)) | 1<<63` (NaN and out-of-range values convert to `1<<63`) -/
def floatToUint64 (b : Nat) : Int :=
  if F64.lt b 0x43E0000000000000 then wrapTo .uint64 (F64.truncInt64 b)
  else
    let y := F64.add b 0xC3E0000000000000
    Int.ofNat ((wrapTo .uint64 (F64.truncInt64 y)).toNat ||| 2 ^ 63)

/-- conversion of a scalar payload to the (underlying) destination type -/
def convScalar (dst : GoTy) (p : V) : V :=
  match dst, p with
  | .int k, .int _ n => .int k (wrapTo k n)
  | .int k, .float _ b => .int k (wrapTo k (if k.signed then F64.truncInt64 b else floatToUint64 b))
  | .float fk, .int _ n => .float fk (if fk == .f32 then F64.toF32 (F64.ofInt n) else F64.ofInt n)
  | .float fk, .float _ b => .float fk (if fk == .f32 then F64.toF32 b else b)
  | .str, .int _ n => .str (runeString n)
  | _, p => p

/-- `v.Convert(dst)` for a value of type `src` when `convOK dst src` -/
def conv (dst src : GoTy) (v : SV) : SV :=
  if dst == src then v else
  match dst with
  | .iface => v
  | _ =>
    match v with
    | .val x =>
      let r := convScalar dst.under x.under
      .val (if dst.isNamed then .named r else r)
    | v => v

/-- dynamic type of what an `any`-typed schema (any, one-of) returns -/
def dynTy : V → GoTy
  | .nil => .iface
  | .bool _ => .bool
  | .int k _ => .int k
  | .float k _ => .float k
  | .str _ => .str
  | .bytes _ => .slice (.int .uint8)
  | .list _ => .slice .iface
  | .map sh _ =>
    .map (match sh.key with | .string => .str | .int64 => .int .int64 | _ => .iface)
      (if sh.valAny then .iface else .str)
  | .named v => .named "?" (match v with | .bool _ => .bool | .int k _ => .int k | .float k _ => .float k | _ => .str)
  | .regex _ => .regex
  | .opaque => .struct "?"

/-- the type `reflect.ValueOf(val)` has in `unserializeToStruct`: the schema's reflected type, or
    the dynamic type when that is the empty interface -/
def srcTy (t : STy) (v : SV) : GoTy :=
  let r := reflTy t
  if r == .iface then
    (match v with
     | .val x => dynTy x
     | .struct id _ => .struct id
     | .ptr (.struct id _) => .ptr (.struct id)
     | _ => .iface)
  else r

/-- the type a property's value has inside its field: what a pointer field points to when the
    property's own type is not a pointer (`unserializeToStruct` allocates, `getFieldReflection`
    dereferences), the field's type otherwise -/
def elemTy (fty src : GoTy) : GoTy := if fty.isPtr && !src.isPtr then fty.deref else fty

/-- the assignment of `unserializeToStruct`; `none` = reflect panics (recovered into an error) -/
def setField (fty src : GoTy) (v : SV) : Option SV :=
  if convOK (elemTy fty src) src then
    some (if fty.isPtr && !src.isPtr then .ptr (conv (elemTy fty src) src v) else conv (elemTy fty src) src v)
  else none

/-! ### struct <-> map -/

/-- replace the value of field `name` -/
def setAt (name : String) (x : SV) : List (String × SV) → List (String × SV)
  | [] => []
  | (n, y) :: r => if n == name then (n, x) :: r else (n, y) :: setAt name x r

def zeroFields (st : StructTy) : List (String × SV) := st.fields.map fun f => (f.name, f.zero)

/-- the loop of `unserializeToStruct` over the entries of the converted map -/
def toStructGo (st : StructTy) (props : List (String × SProp)) :
    List (String × SV) → List (String × SV) → Out (List (String × SV))
  | [], acc => .ok acc
  | (k, v) :: rest, acc =>
    match fieldFor st k, lookupS k props with
    | some f, some p =>
      if !f.exported then .cerrAt [k] else
      match setField f.ty (srcTy p.ty v) v with
      | some x => toStructGo st props rest (setAt f.name x acc)
      | none => .cerrAt [k]
    | _, _ => .panic

/-- `unserializeToStruct`: the fields of the new struct value -/
def toStruct (st : StructTy) (props : List (String × SProp)) (m : List (String × SV)) :
    Out (List (String × SV)) :=
  toStructGo st props m (zeroFields st)

def vIsZero (v : V) : Bool :=
  match v.under with
  | .nil => true
  | .bool b => !b
  | .int _ n => n == 0
  | .float _ b => b == 0 || b == 2 ^ 63
  | .str s => s == ""
  | _ => false

mutual
/-- `reflect.DeepEqual(zero value, x)` for `x` of a non-interface static type -/
def SV.isZero : SV → Bool
  | .val v => vIsZero v
  | .nilSlice | .nilMap _ | .nilPtr => true
  | .ptr _ | .slice _ | .map _ _ => false
  | .struct _ fs => fieldsZero fs
def fieldsZero : List (String × SV) → Bool
  | [] => true
  | (_, x) :: r => x.isZero && fieldsZero r
end

def isRune0 : SV → Bool
  | .val v => (match v.under with | .str s => s == "\x00" | _ => false)
  | _ => false

/-- the treat-empty-as-default test: `reflect.New(property.ReflectedType()).Elem().Convert(
    valPtr.Type())` (a panic when not convertible) `DeepEqual` the value -/
def emptyLike (vty src : GoTy) (x : SV) : Out Bool :=
  if !convOK vty src then .panic
  else if vty == .iface then .ok false
  else if vty.under == .str && src.under.isIntKind then .ok (isRune0 x)
  else .ok x.isZero

def SV.isNilPtr : SV → Bool
  | .nilPtr => true
  | _ => false
def SV.isPtrVal : SV → Bool
  | .ptr _ => true
  | _ => false
def SV.isNilIface : SV → Bool
  | .val .nil => true
  | _ => false

/-- `getFieldReflection`, the pointer step: the value of a POINTER field is followed unless the
    property's own type is a pointer type (a pointer inside an interface field is left alone) -/
def fieldValue (fty src : GoTy) (fv : SV) : SV :=
  match fv with
  | .ptr e => if fty.isPtr && !src.isPtr then e else fv
  | _ => fv

/-- `reflect.Value.IsZero()` of a value of static type `vty`: a non-nil interface is not zero,
    otherwise the zero value (floats compare with `== 0`, nil slices / maps / pointers) -/
def reflIsZero (vty : GoTy) (x : SV) : Bool := vty != .iface && x.isZero

/-- `getFieldReflection` and the treat-empty-as-default test: the value a property reads from its
    field, `none` = the property counts as unset. `src` is the property's reflected type.
    (`IsNil` works on unexported fields, `Interface()` panics on them; a DISABLED property whose
    field holds the zero value is not set.) -/
def readField (f : Field) (src : GoTy) (disabled emptyIsDefault : Bool) (fv : SV) : Out (Option SV) :=
  if fv.isNilPtr then .ok none
  else if !f.exported then .panic
  else if (fieldValue f.ty src fv).isNilIface then .ok none
  else if disabled && reflIsZero (elemTy f.ty src) (fieldValue f.ty src fv) then .ok none
  else if emptyIsDefault then
    (emptyLike (elemTy f.ty src) src (fieldValue f.ty src fv)).bind fun e =>
      .ok (if e then none else some (fieldValue f.ty src fv))
  else .ok (some (fieldValue f.ty src fv))

/-- what `serializeStruct` / `validateStruct` read from a struct value: the set properties with
    their field values, in the order of the property table -/
def fromStruct (st : StructTy) : List (String × SProp) → List (String × SV) → Out (List (String × SV))
  | [], _ => .ok []
  | (k, p) :: rest, fs =>
    match fieldFor st k with
    | none => .panic
    | some f =>
      match lookupS f.name fs with
      | none => .cerr
      | some fv =>
        (readField f (reflTy p.ty) p.disabled p.emptyIsDefault fv).bind fun o =>
          (fromStruct st rest fs).bind fun m =>
            .ok (match o with | some x => (k, x) :: m | none => m)

/-- the struct value of type `T` (`ptrT`: `T` is a pointer type) -/
def wrapT (ptrT : Bool) (id : String) (fs : List (String × SV)) : SV :=
  if ptrT then .ptr (.struct id fs) else .struct id fs

/-- `reflect.TypeOf(data) != o.ReflectedType()` and the nil test of `serializeStruct` /
    `validateStruct` -/
def unwrapT (ptrT : Bool) (id : String) (s : SV) : Out (List (String × SV)) :=
  match ptrT, s with
  | false, .struct id' fs => if id' == id then .ok fs else .cerr
  | true, .ptr (.struct id' fs) => if id' == id then .ok fs else .cerr
  | _, _ => .cerr

/-! ### defaults of sub-objects (`applySubObjectDefaultValues`) -/

/-- `GetDefaults()`: the decoded defaults of an object's properties -/
def defaultsOf : List (String × PropT) → Out (List (String × V))
  | [] => .ok []
  | (k, p) :: rest =>
    match p.defaultV with
    | none => defaultsOf rest
    | some none => .panic
    | some (some d) => (defaultsOf rest).bind fun ds => .ok ((k, d) :: ds)

/-- `if _, isSet := data[k]; !isSet { data[k] = v }` for every default of the sub-object: what the
    parent's declared default says about the sub-object is kept -/
def overlay (data : List (String × V)) : List (String × V) → List (String × V)
  | [] => data
  | (k, v) :: rest => overlay (if hasKey k data then data else setKey k v data) rest

/-- `existingData.(map[string]any)`: `none` = it is not the map form of the sub-object (its
    single-property shorthand, null, a list, a number): nothing is merged, the value stays -/
def existingMap : Option V → Option (List (String × V))
  | none => some []
  | some (.map ⟨.string, true⟩ kvs) => strKeys? kvs
  | some _ => none

/-- the recursive calls over the sub-object's properties (`rec` gets the property ID too) -/
def subDefProps {α} (rec : String → α → Option V → Out (Option V)) :
    List (String × α) → List (String × V) → Out (List (String × V))
  | [], d => .ok d
  | (k, p) :: rest, d =>
    (rec k p (lookupS k d)).bind fun o =>
      subDefProps rec rest (match o with | some v => setKey k v d | none => d)

/-- `applySubObjectDefaultValues` for a map-backed property type: the new `rawData[propertyID]`
    (`none` = absent) given the present one (a map-backed owner has no field table) -/
def subDefTy : Nat → Ty → Option V → Out (Option V)
  | 0, _, _ => .fuel
  | n + 1, .obj _ props, ex =>
    match existingMap ex with
    | none => .ok ex
    | some d0 =>
      (defaultsOf props).bind fun defs =>
        (subDefProps (fun _ (p : PropT) e => subDefTy n p.ty e) props (overlay d0 defs)).bind fun d =>
          .ok (if d.isEmpty then ex else some (toStrAny d))
  | _ + 1, _, ex => .ok ex

/-- is property `k` of the struct-mapped owner `st` mapped to a pointer or interface field? Such a
    sub-object stays nil when it is not given (as repaired in 177d942), like one declared with a
    pointer type: `applySubObjectDefaultValues` returns before looking at it. -/
def fieldSkips (st : StructTy) (k : String) : Bool :=
  match fieldFor st k with
  | some f => f.ty.isPtr || f.ty == .iface
  | none => false

/-- `applySubObjectDefaultValues`: nothing for pointer-typed properties, for scopes, for
    non-objects and for a present value that is not a map; otherwise the existing (default) map,
    completed by the sub-object's own defaults, then the same for every property of the sub-object
    that is not mapped to a pointer or interface field of the sub-object's struct type.
    (Schema trees here are finite - references are inlined - so the guard against objects that refer
    back to themselves never fires.) -/
def subDefS : Nat → STy → Option V → Out (Option V)
  | 0, _, _ => .fuel
  | n + 1, .leaf t, ex => subDefTy (n + 1) t ex
  | n + 1, .obj _ st ptrT props, ex =>
    if ptrT then .ok ex else
    match existingMap ex with
    | none => .ok ex
    | some d0 =>
      (defaultsOf (rulesOf props)).bind fun defs =>
        (subDefProps (fun k (p : SProp) e => if fieldSkips st k then .ok e else subDefS n p.ty e) props
          (overlay d0 defs)).bind fun d =>
          .ok (if d.isEmpty then ex else some (toStrAny d))
  | _ + 1, _, ex => .ok ex

/-- `convertData`, second loop, for a struct-mapped object over the struct type `st`: defaults of
    absent properties, then the defaults of their sub-objects (not behind pointer / interface fields) -/
def applyDefaultsS (st : StructTy) (fuel : Nat) : List (String × SProp) → List (String × V) → Out (List (String × V))
  | [], m => .ok m
  | (k, p) :: rest, m =>
    if hasKey k m then applyDefaultsS st fuel rest m else
    match p.rules.defaultV with
    | some none => .panic
    | d =>
      (if fieldSkips st k then .ok (match d with | some (some v) => some v | _ => none)
       else subDefS fuel p.ty (match d with | some (some v) => some v | _ => none)).bind fun o =>
        applyDefaultsS st fuel rest (match o with | some v => m ++ [(k, v)] | none => m)

/-! ### construction -/

/-- `NewStructMappedObjectSchema`: panics on an undecodable default (`extractObjectDefaultValues`)
    and on a property without a field (`buildObjectFieldCache`) -/
def constructObj (st : StructTy) (props : List (String × SProp)) : Out Unit :=
  (defaultsOf (rulesOf props)).bind fun _ =>
    if props.all (fun kp => (fieldFor st kp.1).isSome) then .ok () else .panic

/-- every element succeeds -/
def allOk {α} (f : α → Out Unit) : List α → Out Unit
  | [] => .ok ()
  | a :: rest => (f a).bind fun _ => allOk f rest

/-- construction of the whole tree (leaves: the map-backed constructors, see `WF`) -/
def construct : Nat → STy → Out Unit
  | 0, _ => .fuel
  | _ + 1, .leaf _ => .ok ()
  | n + 1, .list item _ _ => construct n item
  | n + 1, .map _ v _ _ => construct n v
  | n + 1, .scope t => construct n t
  | n + 1, .obj _ st _ props =>
    (allOk (fun (kp : String × SProp) => construct n kp.2.ty) props).bind fun _ => constructObj st props
  | n + 1, .oneOf _ _ _ members => allOk (fun (m : Key × STy) => construct n m.2) members

/-! ### the operations -/

inductive SOp where
  | U | V | S
deriving DecidableEq, Repr, Inhabited

def SOp.toOp : SOp → Op
  | .U => .U | .V => .V | .S => .S

/-- the value as a map-backed schema sees it (`none`: a struct or a pointer) -/
def SV.toV? : SV → Option V
  | .val v => some v
  | .nilSlice => some (.list [])
  | .nilMap sh => some (.map sh [])
  | .slice [] => some (.list [])
  | .map sh [] => some (.map sh [])
  | _ => none

/-- `reflect.Value.Kind() == reflect.Slice`: the elements -/
def SV.elems? : SV → Option (List SV)
  | .val v => v.sliceElems?.map fun xs => xs.map SV.val
  | .nilSlice => some []
  | .slice xs => some xs
  | _ => none

/-- `reflect.Value.Kind() == reflect.Map`: the entries -/
def SV.entries? : SV → Option (List (V × SV))
  | .val v => v.mapEntries?.map fun e => e.2.map fun kv => (kv.1, SV.val kv.2)
  | .nilMap _ => some []
  | .map _ kvs => some kvs
  | _ => none

abbrev SRec := SOp → STy → SV → Out SV

def forIdxS (f : Nat → SV → Out SV) : Nat → List SV → Out (List SV)
  | _, [] => .ok []
  | i, x :: xs =>
    match f i x with
    | .ok y => match forIdxS f (i + 1) xs with
      | .ok ys => .ok (y :: ys)
      | .err e => .err e
      | .panic => .panic
      | .fuel => .fuel
    | .err e => .err e
    | .panic => .panic
    | .fuel => .fuel

def forKVS (f : V → SV → Out (V × SV)) : List (V × SV) → Out (List (V × SV))
  | [] => .ok []
  | (k, v) :: rest =>
    match f k v with
    | .ok kv => match forKVS f rest with
      | .ok kvs => .ok (kv :: kvs)
      | .err e => .err e
      | .panic => .panic
      | .fuel => .fuel
    | .err e => .err e
    | .panic => .panic
    | .fuel => .fuel

def forSVS {α β} (f : String → α → Out β) : List (String × α) → Out (List (String × β))
  | [] => .ok []
  | (k, v) :: rest =>
    match f k v with
    | .ok v' => match forSVS f rest with
      | .ok kvs => .ok ((k, v') :: kvs)
      | .err e => .err e
      | .panic => .panic
      | .fuel => .fuel
    | .err e => .err e
    | .panic => .panic
    | .fuel => .fuel

/-- serialized values are map-backed values -/
def asVal : SV → Out V
  | .val v => .ok v
  | _ => .cerr

def allVals : List SV → Out (List V)
  | [] => .ok []
  | x :: xs => (asVal x).bind fun v => (allVals xs).bind fun vs => .ok (v :: vs)

def runLeaf (x : Ext) (fuel : Nat) (op : SOp) (t : Ty) (s : SV) : Out SV :=
  match s.toV? with
  | none => .cerr
  | some v =>
    match run x fuel op.toOp [] t v with
    | .ok r => .ok (.val r)
    | .err e => .err e
    | .panic => .panic
    | .fuel => .fuel

def runListS (rec : SRec) (op : SOp) (item : STy) (min max : Option Int) (s : SV) : Out SV :=
  match s.elems? with
  | none => .cerr
  | some xs =>
    (checkLen min max xs.length).bind fun _ =>
    match op with
    | .U => (forIdxS (fun i e => (rec .U item e).addSeg (idxSeg i)) 0 xs).bind fun ys => .ok (.slice ys)
    | .V => (forIdxS (fun i e => (rec .V item e).addSeg (idxSeg i)) 0 xs).bind fun _ => .ok (.val unitV)
    | .S =>
      (forIdxS (fun i e => (rec .V item e).addSeg (idxSeg i)) 0 xs).bind fun _ =>
        (forIdxS (fun i e => (rec .S item e).addSeg (idxSeg i)) 0 xs).bind fun ys =>
          (allVals ys).bind fun vs => .ok (.val (.list vs))

def entryKVS (rec : SRec) (x : Ext) (fuel : Nat) (op : SOp) (kt : Ty) (vt : STy) (k : V) (e : SV) : Out (V × SV) :=
  ((run x fuel op.toOp [] kt k).addSeg (keySeg k)).bind fun k' =>
    ((rec op vt e).addSeg (valSeg k)).bind fun e' => .ok (k', e')

def dupKeyS (kvs : List (V × SV)) : Bool := dupKey (kvs.map fun kv => (kv.1, V.nil))

def allValKVs : List (V × SV) → Out (List (V × V))
  | [] => .ok []
  | (k, x) :: rest => (asVal x).bind fun v => (allValKVs rest).bind fun vs => .ok ((k, v) :: vs)

def runMapS (rec : SRec) (x : Ext) (fuel : Nat) (op : SOp) (kt : Ty) (vt : STy) (min max : Option Int) (s : SV) : Out SV :=
  match s.entries? with
  | none => .cerr
  | some kvs =>
    (checkLen min max kvs.length).bind fun _ =>
    match op with
    | .U =>
      (forKVS (entryKVS rec x fuel .U kt vt) kvs).bind fun kvs' =>
        if dupKeyS kvs' then .cerr else .ok (.map ⟨kt.keyTy, false⟩ kvs')
    | .V => (forKVS (entryKVS rec x fuel .V kt vt) kvs).bind fun _ => .ok (.val unitV)
    | .S =>
      (forKVS (entryKVS rec x fuel .V kt vt) kvs).bind fun _ =>
        (forKVS (entryKVS rec x fuel .S kt vt) kvs).bind fun kvs' =>
          (allValKVs kvs').bind fun es => .ok (.val (.map .anyAny es))

/-- Unserialize of one present property (`convertData`, third loop) -/
def entryUS (rec : SRec) (props : List (String × SProp)) (k : String) (d : V) : Out SV :=
  match lookupS k props with
  | none => .cerr
  | some p => if p.disabled then .cerrAt [k] else (rec .U p.ty (.val d)).addSeg k

/-- `reflect.Value.Kind() == reflect.Map` for a raw input: its entries -/
def SV.rawEntries? (s : SV) : Option (List (V × V)) :=
  match s.toV? with
  | some v => v.mapEntries?.map (·.2)
  | none => none

/-- `ObjectSchema.Unserialize` of a struct-mapped object up to the interdependency check -/
def sobjRaw (rec : SRec) (fuel : Nat) (st : StructTy) (props : List (String × SProp)) (s : SV) : Out (List (String × SV)) :=
  match s.rawEntries? with
  | none =>
    match props with
    | [(name, p)] =>
      if p.disabled then .plain else
      (rewrapP (rec .U p.ty s)).bind fun r => .ok [(name, r)]
    | _ => .cerr
  | some kvs =>
    match strKeys? kvs with
    | none => .cerr
    | some skvs =>
      -- (a Go map has no two equal keys: a value with a repeated key is not a Go value)
      if !(decide (skvs.map (·.1)).Nodup) then .cerr else
      if skvs.any (fun kv => !(hasKey kv.1 props)) then .cerr else
      (applyDefaultsS st fuel props skvs).bind fun m => forSVS (entryUS rec props) m

/-- Validate / Serialize of one set property of a struct value -/
def entryVS (rec : SRec) (op : SOp) (props : List (String × SProp)) (k : String) (e : SV) : Out SV :=
  match lookupS k props with
  | none => .cerr
  | some p => (rec op p.ty e).addSeg k

def runObjS (rec : SRec) (fuel : Nat) (op : SOp) (st : StructTy) (ptrT : Bool)
    (props : List (String × SProp)) (s : SV) : Out SV :=
  match op with
  | .U =>
    (sobjRaw rec fuel st props s).bind fun m =>
      (interdeps (rulesOf props) (fun k => hasKey k m)).bind fun _ =>
        (toStruct st props m).bind fun fs => .ok (wrapT ptrT st.name fs)
  | .V =>
    (unwrapT ptrT st.name s).bind fun fs =>
      (fromStruct st props fs).bind fun raw =>
        (forSVS (entryVS rec .V props) raw).bind fun _ =>
          (interdeps (rulesOf props) (fun k => hasKey k raw)).bind fun _ => .ok (.val unitV)
  | .S =>
    (unwrapT ptrT st.name s).bind fun fs =>
      (fromStruct st props fs).bind fun raw =>
        (forSVS (entryVS rec .S props) raw).bind fun m =>
          (forSVS (fun _ e => asVal e) m).bind fun m' =>
            (interdeps (rulesOf props) (fun k => hasKey k raw)).bind fun _ => .ok (.val (toStrAny m'))

/-! #### one-ofs over struct-mapped members -/

/-- the dynamic type of a struct value or of a pointer to one (`reflect.TypeOf(data)`) -/
def svTy? : SV → Option GoTy
  | .struct id _ => some (.struct id)
  | .ptr (.struct id _) => some (.ptr (.struct id))
  | _ => none

/-- `findUnderlyingType` for a struct value: the member whose reflected type is the value's dynamic
    type - the LAST one the loop over the member table meets (Go leaves the order open: when two
    members share a struct type the outcome depends on it; here: the order of the list) -/
def findMember (members : List (Key × STy)) (s : SV) : Option (Key × STy) :=
  match svTy? s with
  | none => none
  | some g => (members.filter fun m => reflTy m.2 == g).getLast?

/-- `OneOfSchema.UnserializeType` with struct-mapped members: routed by the discriminator of the raw
    map; a member result that is a `map[string]any` gets the discriminator, a struct is returned as
    it is (`saveConvertTo(..., any)`) -/
def oneOfUnserS (rec : SRec) (x : Ext) (intKey : Bool) (disc : String) (inlined : Bool)
    (members : List (Key × STy)) (s : SV) : Out SV :=
  match s.toV? with
  | none => .cerr
  | some .nil => .plain
  | some v =>
    match v.mapEntries? with
    | none => .cerr
    | some (sh, kvs) =>
      if !(sh.key == .any || sh.key == .string) then .cerr else
      match kvs.find? (isDiscKey disc) with
      | none => .cerr
      | some (_, d) =>
        let typed : Out Key :=
          if intKey then (rewrapC (intInputMapper none d)).bind fun n => .ok (.i n)
          else (rewrapC (stringInputMapper x d)).bind fun s => .ok (.s s)
        typed.bind fun key =>
          match strKeys? kvs with
          | none => .cerr
          | some m =>
            match lookupK key members with
            | none => .cerr
            | some mt =>
              (rec .U mt (.val (toStrAny (if inlined then m else eraseKey disc m)))).bind fun r =>
                match r with
                | .val (.map ⟨.string, true⟩ rk) =>
                  match strKeys? rk with
                  | some rm => .ok (.val (toStrAny (setKey disc key.toV rm)))
                  | none => .cerr
                | _ => .ok r

def runOneOfS (rec : SRec) (x : Ext) (op : SOp) (intKey : Bool) (disc : String) (inlined : Bool)
    (members : List (Key × STy)) (s : SV) : Out SV :=
  match op with
  | .U => oneOfUnserS rec x intKey disc inlined members s
  | .V =>
    -- (a map is routed by its discriminator and then refused by the struct-mapped member; anything
    --  that is neither a struct nor a pointer to one nor a map is refused at once: an error either way)
    match findMember members s with
    | none => .cerr
    | some (k, mt) => ((rec .V mt s).addSeg ("{oneof[" ++ k.fmt ++ "]}")).bind fun _ => .ok (.val unitV)
  | .S =>
    match findMember members s with
    | none => .cerr
    | some (k, mt) =>
      (rec .S mt s).bind fun r =>
        match r with
        | .val (.map ⟨.string, true⟩ rk) =>
          match strKeys? rk with
          | some rm => .ok (.val (toStrAny (if hasKey disc rm then rm else rm ++ [(disc, k.toV)])))
          | none => .cerr
        | _ => .panic  -- `serializedData.(map[string]any)` is an unchecked assertion

/-- One operation of the SDK on a schema tree with struct-mapped objects.
    `U`: input `val raw`, result the Go value (structs at the struct-mapped objects);
    `V`: result `val unitV`; `S`: result `val serialized`. -/
def srun (x : Ext) : Nat → SRec
  | 0 => fun _ _ _ => .fuel
  | fuel + 1 => fun op t s =>
    match t with
    | .leaf t => runLeaf x fuel op t s
    | .list item min max => runListS (srun x fuel) op item min max s
    | .map kt vt min max => runMapS (srun x fuel) x fuel op kt vt min max s
    | .scope t => srun x fuel op t s
    | .obj _ st ptrT props => runObjS (srun x fuel) fuel op st ptrT props s
    | .oneOf intKey disc inlined members => runOneOfS (srun x fuel) x op intKey disc inlined members s

/-- construction followed by one operation: what a harness case observes -/
def caseRun (x : Ext) (fuel : Nat) (op : SOp) (t : STy) (s : SV) : Out SV :=
  (construct fuel t).bind fun _ => srun x fuel op t s

end SM
end Arca
