/-
  Basic vocabulary of the model: outcomes of a Go operation, Go integer kinds, and binary64 values
  as bit patterns with exact integer decoding (no use of Lean's opaque `Float`).
  Core Lean only (this file is linked into the native driver).
-/
namespace Arca

/-- What is known about a returned Go `error`: whether `errors.As(err, *ConstraintError)` succeeds,
    and that error's `Path`. -/
structure Err where
  constraint : Bool
  path : List String
deriving DecidableEq, Repr, Inhabited

/-- The four things a Go call can do. `panic` mirrors an actual panic of the implementation,
    `fuel` means the model ran out of recursion budget (the implementation would not terminate or
    recurses deeper than the budget). -/
inductive Out (α : Type) where
  | ok (a : α)
  | err (e : Err)
  | panic
  | fuel
deriving Repr

namespace Out
@[inline] def bind {α β} (x : Out α) (f : α → Out β) : Out β :=
  match x with
  | ok a => f a
  | err e => err e
  | panic => panic
  | fuel => fuel
instance : Monad Out where
  pure := Out.ok
  bind := Out.bind

def isOk {α} : Out α → Bool
  | ok _ => true
  | _ => false
def isErr {α} : Out α → Bool
  | err _ => true
  | _ => false

/-- plain (non-constraint) error, e.g. `fmt.Errorf` -/
def plain {α} : Out α := .err ⟨false, []⟩
/-- a fresh `*ConstraintError` without path -/
def cerr {α} : Out α := .err ⟨true, []⟩
/-- a fresh `*ConstraintError` with the given path -/
def cerrAt {α} (p : List String) : Out α := .err ⟨true, p⟩

/-- `ConstraintErrorAddPathSegment`: prefixes the segment to the path of the ConstraintError in
    the chain; an error that is not a ConstraintError is wrapped into one carrying the segment
    (as repaired: before, such an error travelled upwards without a path). -/
def addSeg {α} (seg : String) : Out α → Out α
  | err e => .err ⟨true, seg :: e.path⟩
  | o => o

/-- forget the value -/
def void {α} : Out α → Out Unit
  | ok _ => ok ()
  | err e => err e
  | panic => panic
  | fuel => fuel

@[simp] theorem bind_ok {α β} (a : α) (f : α → Out β) : (Out.ok a >>= f) = f a := rfl
@[simp] theorem bind_err {α β} (e : Err) (f : α → Out β) : ((Out.err e : Out α) >>= f) = .err e := rfl
@[simp] theorem bind_panic {α β} (f : α → Out β) : ((Out.panic : Out α) >>= f) = .panic := rfl
@[simp] theorem bind_fuel {α β} (f : α → Out β) : ((Out.fuel : Out α) >>= f) = .fuel := rfl
@[simp] theorem pure_eq {α} (a : α) : (pure a : Out α) = .ok a := rfl
end Out

/-- The ten Go integer kinds. -/
inductive IKind where
  | int | int8 | int16 | int32 | int64 | uint | uint8 | uint16 | uint32 | uint64
deriving DecidableEq, Repr, Inhabited

namespace IKind
def signed : IKind → Bool
  | int | int8 | int16 | int32 | int64 => true
  | _ => false
def bits : IKind → Nat
  | int8 | uint8 => 8
  | int16 | uint16 => 16
  | int32 | uint32 => 32
  | _ => 64
def lo (k : IKind) : Int := if k.signed then -(2 ^ (k.bits - 1) : Int) else 0
def hi (k : IKind) : Int := if k.signed then (2 ^ (k.bits - 1) : Int) - 1 else (2 ^ k.bits : Int) - 1
def inRange (k : IKind) (n : Int) : Bool := k.lo ≤ n && n ≤ k.hi
def name : IKind → String
  | int => "int" | int8 => "int8" | int16 => "int16" | int32 => "int32" | int64 => "int64"
  | uint => "uint" | uint8 => "uint8" | uint16 => "uint16" | uint32 => "uint32" | uint64 => "uint64"
def ofName? : String → Option IKind
  | "int" => some int | "int8" => some int8 | "int16" => some int16 | "int32" => some int32
  | "int64" => some int64 | "uint" => some uint | "uint8" => some uint8 | "uint16" => some uint16
  | "uint32" => some uint32 | "uint64" => some uint64 | _ => none
end IKind

def minInt64 : Int := -(2 ^ 63 : Int)
def maxInt64 : Int := (2 ^ 63 : Int) - 1
def inInt64 (n : Int) : Bool := minInt64 ≤ n && n ≤ maxInt64

/-- two's-complement wrap to int64 (Go's integer conversion) -/
def wrapInt64 (n : Int) : Int :=
  let m := n % (2 ^ 64 : Int)
  if m ≥ (2 ^ 63 : Int) then m - (2 ^ 64 : Int) else m

inductive FKind where
  | f32 | f64
deriving DecidableEq, Repr, Inhabited

/-- Decoded binary64: value of `fin neg m e` is `(-1)^neg * m * 2^e`. -/
inductive FV where
  | nan
  | inf (neg : Bool)
  | fin (neg : Bool) (m : Nat) (e : Int)
deriving DecidableEq, Repr

namespace F64
/-- canonical NaN bit pattern used by the harness (all NaNs are collapsed to it) -/
def nanBits : Nat := 0x7FF8000000000001

def decode (b : Nat) : FV :=
  let s : Bool := (b / 2 ^ 63) % 2 == 1
  let ex : Nat := (b / 2 ^ 52) % 2 ^ 11
  let fr : Nat := b % 2 ^ 52
  if ex == 2047 then (if fr == 0 then .inf s else .nan)
  else if ex == 0 then .fin s fr (-1074)
  else .fin s (fr + 2 ^ 52) ((ex : Int) - 1075)

def isNaN (b : Nat) : Bool := decode b == .nan

/-- signed numerator of `m * 2^e` over the common denominator `2^(-emin)` -/
def scaled (neg : Bool) (m : Nat) (e emin : Int) : Int :=
  let v : Int := (m : Int) * (2 : Int) ^ (e - emin).toNat
  if neg then -v else v

/-- `a < b` on decoded values, IEEE semantics (false if either is NaN, -0 = +0). -/
def ltV : FV → FV → Bool
  | .nan, _ => false
  | _, .nan => false
  | .inf n1, .inf n2 => n1 && !n2
  | .inf n1, .fin _ _ _ => n1
  | .fin _ _ _, .inf n2 => !n2
  | .fin n1 m1 e1, .fin n2 m2 e2 =>
    let emin := if e1 ≤ e2 then e1 else e2
    scaled n1 m1 e1 emin < scaled n2 m2 e2 emin

def eqV : FV → FV → Bool
  | .nan, _ => false
  | _, .nan => false
  | .inf n1, .inf n2 => n1 == n2
  | .inf _, .fin _ _ _ => false
  | .fin _ _ _, .inf _ => false
  | .fin n1 m1 e1, .fin n2 m2 e2 =>
    let emin := if e1 ≤ e2 then e1 else e2
    scaled n1 m1 e1 emin == scaled n2 m2 e2 emin

def lt (a b : Nat) : Bool := ltV (decode a) (decode b)
def le (a b : Nat) : Bool := ltV (decode a) (decode b) || eqV (decode a) (decode b)
def ge (a b : Nat) : Bool := le b a

/-- round-half-even division of a natural by `2^s` -/
def rshiftRNE (m : Nat) (s : Nat) : Nat :=
  let q := m / 2 ^ s
  let r := m % 2 ^ s
  let half := 2 ^ s / 2
  if s == 0 then m
  else if r > half then q + 1
  else if r < half then q
  else if q % 2 == 1 then q + 1 else q

/-- Nearest (ties-to-even) float with `prec` mantissa bits and minimal exponent `emin` of
    `m * 2^e`; result as (mantissa, exponent) or overflow (`none`) when exponent exceeds `emax`. -/
def roundTo (prec : Nat) (emin emax : Int) (m : Nat) (e : Int) : Option (Nat × Int) :=
  if m == 0 then some (0, emin) else
  let len := Nat.log2 m + 1
  let e0 : Int := e + (len : Int) - (prec : Int)
  let e1 : Int := if e0 < emin then emin else e0
  let (m1, e2) : Nat × Int :=
    if e1 ≤ e then (m * 2 ^ (e - e1).toNat, e1) else (rshiftRNE m (e1 - e).toNat, e1)
  let (m2, e3) : Nat × Int := if m1 == 2 ^ prec then (2 ^ (prec - 1), e2 + 1) else (m1, e2)
  if e3 > emax then none else some (m2, e3)

/-- encode sign, mantissa (< 2^53), exponent (≥ -1074) as binary64 bits -/
def encodeFin (neg : Bool) (m : Nat) (e : Int) : Nat :=
  let s := if neg then 2 ^ 63 else 0
  if m < 2 ^ 52 then s + m
  else s + ((e + 1075).toNat) * 2 ^ 52 + (m - 2 ^ 52)

def infBits (neg : Bool) : Nat := (if neg then 2 ^ 63 else 0) + 2047 * 2 ^ 52

/-- nearest binary64 of `(-1)^neg * m * 2^e` -/
def round64 (neg : Bool) (m : Nat) (e : Int) : Nat :=
  match roundTo 53 (-1074) 971 m e with
  | some (m', e') => encodeFin neg m' e'
  | none => infBits neg

/-- `float64(n)` for an integer `n` -/
def ofInt (n : Int) : Nat := round64 (n < 0) n.natAbs 0

/-- nearest binary32 (as the binary64 bits of its widening) of a binary64 value -/
def toF32 (b : Nat) : Nat :=
  match decode b with
  | .nan => nanBits
  | .inf n => infBits n
  | .fin n m e =>
    match roundTo 24 (-149) 104 m e with
    | some (m', e') => round64 n m' e'
    | none => infBits n

/-- Is the value an integer in int64 range? If so, which. This is exactly the test
    `i := int64(v); v == float64(i)` on amd64 (out-of-range and NaN convert to MinInt64, whose
    float is -2^63, which is itself in range). -/
def toInt64Exact (b : Nat) : Option Int :=
  match decode b with
  | .nan => none
  | .inf _ => none
  | .fin n m e =>
    if e ≥ 0 then
      let v : Int := (m : Int) * (2 : Int) ^ e.toNat
      let v := if n then -v else v
      if inInt64 v then some v else none
    else
      let d := 2 ^ (-e).toNat
      if m % d == 0 then
        let v : Int := ((m / d : Nat) : Int)
        let v := if n then -v else v
        if inInt64 v then some v else none
      else none

/-- Go's `int64(v)` on amd64 (truncation toward zero; NaN / out of range give MinInt64). -/
def truncInt64 (b : Nat) : Int :=
  match decode b with
  | .nan => minInt64
  | .inf _ => minInt64
  | .fin n m e =>
    let a : Nat := if e ≥ 0 then m * 2 ^ e.toNat else m / 2 ^ (-e).toNat
    let v : Int := if n then -(a : Int) else (a : Int)
    if inInt64 v then v else minInt64
end F64

end Arca

namespace Arca
namespace F64
/-- exact signed integer numerator of a finite value over `2^emin` → rounded binary64 -/
def ofScaled (v : Int) (emin : Int) (negZero : Bool) : Nat :=
  if v == 0 then (if negZero then 2 ^ 63 else 0) else round64 (v < 0) v.natAbs emin

/-- IEEE binary64 addition (round to nearest even) -/
def add (a b : Nat) : Nat :=
  match decode a, decode b with
  | .nan, _ => nanBits
  | _, .nan => nanBits
  | .inf n1, .inf n2 => if n1 == n2 then infBits n1 else nanBits
  | .inf n1, .fin _ _ _ => infBits n1
  | .fin _ _ _, .inf n2 => infBits n2
  | .fin n1 m1 e1, .fin n2 m2 e2 =>
    let emin := if e1 ≤ e2 then e1 else e2
    ofScaled (scaled n1 m1 e1 emin + scaled n2 m2 e2 emin) emin (n1 && n2)

/-- IEEE binary64 multiplication -/
def mul (a b : Nat) : Nat :=
  match decode a, decode b with
  | .nan, _ => nanBits
  | _, .nan => nanBits
  | .inf n1, .inf n2 => infBits (n1 != n2)
  | .inf n1, .fin n2 m2 _ => if m2 == 0 then nanBits else infBits (n1 != n2)
  | .fin n1 m1 _, .inf n2 => if m1 == 0 then nanBits else infBits (n1 != n2)
  | .fin n1 m1 e1, .fin n2 m2 e2 =>
    if m1 * m2 == 0 then (if n1 != n2 then 2 ^ 63 else 0) else round64 (n1 != n2) (m1 * m2) (e1 + e2)
end F64
end Arca
