import Lean.Data.Json
import ArcaModel.Model.Dispatch
import ArcaModel.Model.Link
/-
  Line-protocol handler of the linking model (op "LINK").

  case:   {"op":"LINK","tree":T,"ext":[[ns,T],...],"order":[ns,...]}
          T ::= {"t":"leaf"} | {"t":"ref","id":..,"ns":..} | {"t":"list","item":T} | {"t":"map","k":T,"v":T}
              | {"t":"obj","id":..,"props":[[name,T],...]} | {"t":"oneOf","disc":..,"members":[[key,T],...]}
              | {"t":"scope","root":..,"objs":[[id,T],...]}
          `tree` is built with the constructors (owner ""), every `ext` tree likewise (owner = its
          namespace; it must be a scope, whose objects are the namespace's table), then the
          namespaces in `order` are applied to the root of `tree`, in that order.
  result: {"r":"ok","v":{"refs":[[path,target],...],"valid0":b,"valid":b}} with one entry per
          reference of `tree` in traversal order, path = segments joined by "/", target = null
          (unlinked) or [owner, scope path, object id]; valid0 / valid = `ValidateReferences` after
          construction / after the applications. {"r":"panic"} if any step panics.
  (Executable glue only; nothing here is used in a theorem.)
-/
open Lean

namespace Arca.Dispatch
open Arca.Link

def mkChain (kids : List (String × LTy)) : LTy :=
  kids.foldr (fun (kv : String × LTy) acc => LTy.cons kv.1 kv.2 acc) LTy.nil

partial def decL (j : Json) : R LTy := do
  let t ← getStr (← field j "t")
  let kids (k : String) : R LTy := do
    let a ← arrField j k
    let ks ← a.toList.mapM fun e => do
      let p ← e.getArr?
      return (← getStr p[0]!, ← decL p[1]!)
    return mkChain ks
  match t with
  | "leaf" => return .leaf .any
  | "ref" =>
    let ns := match fieldOpt j "ns" with
      | some (.str s) => s
      | _ => ""
    return .ref (← getStr (← field j "id")) ns none
  | "list" => return .list (← decL (← field j "item"))
  | "map" => return .map (← decL (← field j "k")) (← decL (← field j "v"))
  | "obj" => return .obj (← getStr (← field j "id")) (← kids "props")
  | "oneOf" => return .oneOf (← getStr (← field j "disc")) (← kids "members")
  | "scope" => return .scope (← kids "objs") (← getStr (← field j "root"))
  | _ => throw s!"bad link tree node {t}"

def pathStr (p : Path) : String := "/".intercalate p

def encAddr (a : Addr) : Json := .arr #[.str a.owner, .str (pathStr a.scope), .str a.id]

def encOcc (o : Occ) : Json :=
  .arr #[.str (pathStr o.path), match o.link with
    | some a => encAddr a
    | none => .null]

def handleLink (j : Json) : R Json := do
  let tree ← decL (← field j "tree")
  let exts ← (← arrField j "ext").toList.mapM fun e => do
    let p ← e.getArr?
    return (← getStr p[0]!, ← decL p[1]!)
  let order ← strList j "order"
  let out : Out Json :=
    (build "" [] tree).bind fun t1 =>
      -- the external scopes are constructed too (their own references are linked within them)
      let rec tables : List (String × LTy) → Out (List (String × Table))
        | [] => .ok []
        | (ns, et) :: rest =>
          (build ns [] et).bind fun et' =>
            (tables rest).bind fun ts =>
              match et' with
              | .scope objs _ => .ok ((ns, selfTable ns [] objs) :: ts)
              | _ => .ok ((ns, []) :: ts)
      (tables exts).bind fun tbls =>
        let apps := order.filterMap fun ns => (lookupS ns tbls).map fun tb => (ns, tb)
        (applySeq apps t1).bind fun t2 =>
          .ok (Json.mkObj [
            ("refs", .arr ((occs "" none [] t2).map encOcc).toArray),
            ("valid0", .bool (validateRefs t1)),
            ("valid", .bool (validateRefs t2))])
  return match out with
    | .ok v => Json.mkObj [("r", "ok"), ("v", v)]
    | .err _ => Json.mkObj [("r", "err")]
    | .panic => Json.mkObj [("r", "panic")]
    | .fuel => Json.mkObj [("r", "fuel")]

/-! op "LINKP": a linking PROGRAM over several named trees (tree `""` is the one under test).

  case:   {"op":"LINKP","trees":[[name,T],...],"steps":[step,...]}
  step:   ["build",name]                    construct the tree with the public constructors
          ["buildKids",name]                construct everything below the top scope, not the top scope itself
          ["self",name]                     `ApplyNamespace(nil,"")` on the root (for a top scope prepared by
                                            "buildKids" this is its `NewScopeSchema`; later on, `ApplySelf()`)
          ["apply",name,ns,from]            `root.ApplyNamespace(from.Objects(), ns)`
          ["applyAt",name,path,ns,from]     the same on the scope at `path` inside the tree (from "" = nil table)
          ["applySub",name,ns,from,id,...]  `apply` with the table of `from` minus the listed IDs
          ["applyAtSub",name,path,ns,from,id,...]   likewise at `path`
          ["literal",name]                  every scope of the tree is written as a plain `&ScopeSchema{}` value:
                                            nothing is applied (no-op in the model; the next "self" links it)
          ["replace",name,path,id,json]     `ObjectsValue[id] = object` on the scope at `path`; json = the object T
          ["try",step...]                   the step under `recover()`: if it panics the program goes on with
                                            the trees as they were (`Link.recovered`)
  result: {"r":"ok","v":{"trees":[[name,[[path,target],...],valid],...]}} for all trees in the given order,
          {"r":"panic"} if any step panics. -/

def setTree (name : String) (t : LTy) : List (String × LTy) → List (String × LTy)
  | [] => [(name, t)]
  | (n, t') :: rest => if n == name then (n, t) :: rest else (n, t') :: setTree name t rest

def tableOf (store : List (String × LTy)) (src : String) : Table :=
  match lookupS src store with
  | some (.scope objs _) => selfTable src [] objs
  | _ => []

def splitPath (s : String) : Path := if s.isEmpty then [] else s.splitOn "/"

def tableMinus (tb : Table) (ids : List String) : Table := tb.filter fun e => !(ids.contains e.1)

def runStep1 (store : List (String × LTy)) (step : List String) : Except String (Out (List (String × LTy))) :=
  let upd (name : String) (f : LTy → Out LTy) : Except String (Out (List (String × LTy))) :=
    match lookupS name store with
    | none => .error s!"unknown tree {name}"
    | some t => .ok ((f t).bind fun t' => .ok (setTree name t' store))
  match step with
  | ["build", name] => upd name (build name [])
  | ["buildKids", name] => upd name fun t =>
      match t with
      | .scope objs root => (build name [] objs).bind fun objs' => .ok (.scope objs' root)
      | t => build name [] t
  | ["self", name] => upd name (applyNs name [] "" [])
  | ["apply", name, ns, src] => upd name (applyNs name (tableOf store src) ns [])
  | ["applyAt", name, path, ns, src] => upd name (applyAt name (tableOf store src) ns (splitPath path) [])
  | ["literal", name] => upd name (fun t => .ok t)
  | ["replace", name, path, id, js] =>
    match Json.parse js with
    | .error e => .error s!"bad replacement object: {e}"
    | .ok j =>
      match decL j with
      | .error e => .error e
      | .ok obj => upd name (fun t => .ok (replaceAt (splitPath path) id obj [] t))
  | "applySub" :: name :: ns :: src :: missing => upd name (applyNs name (tableMinus (tableOf store src) missing) ns [])
  | "applyAtSub" :: name :: path :: ns :: src :: missing =>
    upd name (applyAt name (tableMinus (tableOf store src) missing) ns (splitPath path) [])
  | _ => .error s!"bad step {step}"

def runStep (store : List (String × LTy)) (step : List String) : Except String (Out (List (String × LTy))) :=
  match step with
  | "try" :: rest =>
    match runStep1 store rest with
    | .error e => .error e
    | .ok (.ok s) => .ok (.ok s)
    | .ok _ => .ok (.ok store)   -- recovered: every tree as it was
  | _ => runStep1 store step

def handleLinkP (j : Json) : R Json := do
  let trees ← (← arrField j "trees").toList.mapM fun e => do
    let p ← e.getArr?
    return (← getStr p[0]!, ← decL p[1]!)
  let steps ← (← arrField j "steps").toList.mapM fun e => do
    let a ← e.getArr?
    a.toList.mapM getStr
  let mut store : Out (List (String × LTy)) := .ok trees
  for st in steps do
    match store with
    | .ok s => store ← runStep s st
    | _ => pure ()
  return match store with
    | .ok s => Json.mkObj [("r", "ok"), ("v", Json.mkObj [("trees", .arr (s.map fun (n, t) =>
        Json.arr #[.str n, .arr ((occs n none [] t).map encOcc).toArray, .bool (validateRefs t)]).toArray)])]
    | .err _ => Json.mkObj [("r", "err")]
    | .panic => Json.mkObj [("r", "panic")]
    | .fuel => Json.mkObj [("r", "fuel")]

/-- handler of ops "LINK" and "LINKP" -/
def linkHandler (op : String) (j : Json) : Option (R Json) :=
  if op == "LINK" then some (handleLink j)
  else if op == "LINKP" then some (handleLinkP j) else none

end Arca.Dispatch
