import Lean.Data.Json
import ArcaModel.Model.Dispatch
import ArcaModel.Model.Link
/-
  Line-protocol handler of the linking model (op "LINK").

  case:   {"op":"LINK","tree":T,"ext":[[ns,T],...],"order":[ns,...]}
          T ::= {"t":"leaf"} | {"t":"ref","id":..,"ns":..} | {"t":"list","item":T} | {"t":"map","k":T,"v":T}
              | {"t":"obj","id":..,"props":[[name,T],...]} | {"t":"oneOf","disc":..,"members":[[key,T],...]}
              | {"t":"scope","root":..,"objs":[[id,T],...]}
          `tree` is built with the constructors (owner ""), every `ext` tree likewise (owner = its
          namespace; it must be a scope, whose objects are the namespace's table), then the
          namespaces in `order` are applied to the root of `tree`, in that order.
  result: {"r":"ok","v":{"refs":[[path,target],...],"valid0":b,"valid":b}} with one entry per
          reference of `tree` in traversal order, path = segments joined by "/", target = null
          (unlinked) or [owner, scope path, object id]; valid0 / valid = `ValidateReferences` after
          construction / after the applications. {"r":"panic"} if any step panics.
  (Executable glue only; nothing here is used in a theorem.)
-/
open Lean

namespace Arca.Dispatch
open Arca.Link

def mkChain (kids : List (String × LTy)) : LTy :=
  kids.foldr (fun (kv : String × LTy) acc => LTy.cons kv.1 kv.2 acc) LTy.nil

partial def decL (j : Json) : R LTy := do
  let t ← getStr (← field j "t")
  let kids (k : String) : R LTy := do
    let a ← arrField j k
    let ks ← a.toList.mapM fun e => do
      let p ← e.getArr?
      return (← getStr p[0]!, ← decL p[1]!)
    return mkChain ks
  match t with
  | "leaf" => return .leaf .any
  | "ref" =>
    let ns := match fieldOpt j "ns" with
      | some (.str s) => s
      | _ => ""
    return .ref (← getStr (← field j "id")) ns none
  | "list" => return .list (← decL (← field j "item"))
  | "map" => return .map (← decL (← field j "k")) (← decL (← field j "v"))
  | "obj" => return .obj (← getStr (← field j "id")) (← kids "props")
  | "oneOf" => return .oneOf (← getStr (← field j "disc")) (← kids "members")
  | "scope" => return .scope (← kids "objs") (← getStr (← field j "root"))
  | _ => throw s!"bad link tree node {t}"

def pathStr (p : Path) : String := "/".intercalate p

def encAddr (a : Addr) : Json := .arr #[.str a.owner, .str (pathStr a.scope), .str a.id]

def encOcc (o : Occ) : Json :=
  .arr #[.str (pathStr o.path), match o.link with
    | some a => encAddr a
    | none => .null]

def handleLink (j : Json) : R Json := do
  let tree ← decL (← field j "tree")
  let exts ← (← arrField j "ext").toList.mapM fun e => do
    let p ← e.getArr?
    return (← getStr p[0]!, ← decL p[1]!)
  let order ← strList j "order"
  let out : Out Json :=
    (build "" [] tree).bind fun t1 =>
      -- the external scopes are constructed too (their own references are linked within them)
      let rec tables : List (String × LTy) → Out (List (String × Table))
        | [] => .ok []
        | (ns, et) :: rest =>
          (build ns [] et).bind fun et' =>
            (tables rest).bind fun ts =>
              match et' with
              | .scope objs _ => .ok ((ns, selfTable ns [] objs) :: ts)
              | _ => .ok ((ns, []) :: ts)
      (tables exts).bind fun tbls =>
        let apps := order.filterMap fun ns => (lookupS ns tbls).map fun tb => (ns, tb)
        (applySeq apps t1).bind fun t2 =>
          .ok (Json.mkObj [
            ("refs", .arr ((occs "" none [] t2).map encOcc).toArray),
            ("valid0", .bool (validateRefs t1)),
            ("valid", .bool (validateRefs t2))])
  return match out with
    | .ok v => Json.mkObj [("r", "ok"), ("v", v)]
    | .err _ => Json.mkObj [("r", "err")]
    | .panic => Json.mkObj [("r", "panic")]
    | .fuel => Json.mkObj [("r", "fuel")]

/-- handler of op "LINK" -/
def linkHandler (op : String) (j : Json) : Option (R Json) :=
  if op == "LINK" then some (handleLink j) else none

end Arca.Dispatch
