import ArcaModel.Model.Value
/-
  Model of `/repo/schema/function.go` (property C18): which handlers the two function constructors
  accept, and how `Call` checks its arguments, invokes the handler and unpacks the results.
  Core Lean only (linked into the native driver).

  The model mirrors the CURRENT code (after the `fix:` commits that compare the error result with the
  predeclared `error` interface instead of the type NAME "error", reject nil / non-function handlers
  and a nil type handler, check argument assignability in `Call`, and use `CallSlice` for variadic
  handlers). The check by name that the code used before is kept as `acceptsStaticByName` only to
  exhibit the defect (see `Props/C18.lean`).
-/
namespace Arca.Func

/-! ## A small universe of Go types -/

/-- Method sets, as far as the interfaces of this universe can tell them apart:
    `none` = no relevant method, `error` = has `Error() string`, `other` = has `Foo()` (and not
    `Error`). For an interface type it is the set of methods the interface demands. -/
inductive Methods where
  | none | error | other
deriving DecidableEq, Repr, Inhabited

/-- `a ⊆ b` on these method sets -/
def Methods.sub (a b : Methods) : Bool := a == .none || a == b

/-- kind of the underlying type of a defined (named) type -/
inductive Under where
  | int | string | struct | ptr | iface
deriving DecidableEq, Repr, Inhabited

/-- Go types. `error` is the predeclared interface `error`; `any` is `interface{}`;
    `regexpPtr` is `*regexp.Regexp`. `named pkg name u m` is a defined type `pkg.name` whose
    underlying type has kind `u` and whose method set (for `u = iface`: the demanded methods) is `m`.
    The underlying types of the named types of this universe are not themselves members of the
    universe as unnamed types (they are `int`, `string`, `struct{..}`, `*struct{..}`, `interface{..}`),
    so assignability between distinct members is possible only towards interfaces.
    A non-interface type that is merely CALLED "error" is e.g. `named "fakeerr" "error" .int .none`.
    Type identity (`==` on `reflect.Type`) is structural equality here. -/
inductive GoType where
  | int64 | float64 | string | bool | regexpPtr
  | any
  | error
  | named (pkg name : String) (u : Under) (m : Methods)
  | slice (e : GoType)
  | map (k v : GoType)
deriving DecidableEq, Repr, Inhabited

namespace GoType

/-- `Kind() == reflect.Interface` -/
def isInterface : GoType → Bool
  | any => true
  | error => true
  | named _ _ .iface _ => true
  | _ => false

/-- kinds on which `reflect.Value.IsNil` does not panic (of those present in the universe) -/
def nilable : GoType → Bool
  | any => true
  | error => true
  | regexpPtr => true
  | slice _ => true
  | map _ _ => true
  | named _ _ .iface _ => true
  | named _ _ .ptr _ => true
  | _ => false

/-- `reflect.Type.Name()` -/
def name : GoType → String
  | int64 => "int64" | float64 => "float64" | string => "string" | bool => "bool"
  | regexpPtr => "" | any => "" | error => "error"
  | named _ n _ _ => n
  | slice _ => "" | map _ _ => ""

/-- method set (w.r.t. the interfaces of the universe) -/
def methods : GoType → Methods
  | error => .error
  | named _ _ _ m => m
  | _ => .none

/-- the non-interface type that is only called "error" (`type error int` in package fakeerr) -/
def fakeError : GoType := named "fakeerr" "error" .int .none

end GoType

/-- `t` implements interface `i` -/
def implements (t i : GoType) : Bool := i.isInterface && i.methods.sub t.methods

/-- `t.AssignableTo(p)` inside this universe: identical types, or `p` is an interface that `t`
    implements. (The third rule of Go - identical underlying types, one of them unnamed - never
    applies between two members of the universe, see `GoType`.) -/
def assignable (t p : GoType) : Bool := t == p || implements t p

/-! ## Schema kinds and their reflected types -/

/-- The schema kinds as far as `ReflectedType()` distinguishes them. Correspondence with `Arca.Ty`:
    `int _ _ _ ↦ int`, `float _ _ _ ↦ float`, `str _ _ _ ↦ string`, `bool ↦ bool`,
    `pattern ↦ pattern`, `any ↦ any`, `enumInt _ _ ↦ enumInt`, `enumStr _ ↦ enumStr`,
    `list t _ _ ↦ list t`, `map k v _ _ ↦ map k v`, `obj _ _` (not struct-mapped) `↦ object`,
    `scope`/`ref` ↦ `object` (they delegate to the root / referenced object),
    `oneOf ..` (no interface type given) `↦ oneOf`.
    Struct-mapped objects, typed enums and one-ofs with an interface type reflect to user types
    and are outside this universe. -/
inductive STy where
  | int | float | string | bool | pattern | any | enumInt | enumStr | object | oneOf
  | list (item : STy)
  | map (k v : STy)
deriving DecidableEq, Repr, Inhabited

/-- `Type.ReflectedType()` -/
def reflected : STy → GoType
  | .int => .int64
  | .float => .float64
  | .string => .string
  | .bool => .bool
  | .pattern => .regexpPtr
  | .any => .any
  | .enumInt => .int64
  | .enumStr => .string
  | .object => .map .string .any
  | .oneOf => .any
  | .list t => .slice (reflected t)
  | .map k v => .map (reflected k) (reflected v)

/-! ## Handlers and declarations -/

/-- a Go function type -/
structure Sig where
  params : List GoType
  results : List GoType
  /-- `IsVariadic()`; then the last parameter type is a slice. No check looks at it. -/
  variadic : Bool := false
deriving DecidableEq, Repr, Inhabited

/-- the `handler any` argument of the constructors -/
inductive HandlerV where
  /-- untyped `nil` -/
  | untypedNil
  /-- a value that is not a function -/
  | nonFunc (t : GoType)
  /-- a nil function value of the given type -/
  | nilFunc (s : Sig)
  | func (s : Sig)
deriving DecidableEq, Repr, Inhabited

/-- the declared (inputs, output, outputsError) triple of `NewCallableFunction` -/
structure Decl where
  inputs : List STy
  output : Option STy
  outputsError : Bool
deriving DecidableEq, Repr, Inhabited

/-- why a constructor returned an error, in the order of the checks -/
inductive Reject where
  | notFunc | nilFunc | paramCount | paramType (i : Nat)
  | returnCount | lastNotError | returnType
  | noTypeHandler | dynReturnCount | dynNotError | dynNotInterface
deriving DecidableEq, Repr, Inhabited

def Reject.text : Reject → String
  | .notFunc => "notFunc" | .nilFunc => "nilFunc" | .paramCount => "paramCount"
  | .paramType i => s!"paramType {i}" | .returnCount => "returnCount"
  | .lastNotError => "lastNotError" | .returnType => "returnType"
  | .noTypeHandler => "noTypeHandler" | .dynReturnCount => "dynReturnCount"
  | .dynNotError => "dynNotError" | .dynNotInterface => "dynNotInterface"

/-- what `Call` needs of a `CallableFunctionSchema` -/
structure Callable where
  sig : Sig
  /-- `StaticOutputValue != nil` -/
  hasStaticOutput : Bool
  /-- `DynamicTypeHandler != nil` -/
  dynamic : Bool
  outputsError : Bool
deriving DecidableEq, Repr, Inhabited

/-- the loop of `validateInputTypeCompatibility`: index of the first position where the expected
    (reflected) type differs from the handler's parameter type; the lists have equal length -/
def firstMismatch (i : Nat) : List GoType → List GoType → Option Nat
  | e :: es, h :: hs => if e != h then some i else firstMismatch (i + 1) es hs
  | _, _ => none

/-- `validateInputTypeCompatibility` -/
def checkInputs (inputs : List STy) : HandlerV → Except Reject Sig
  | .untypedNil => .error .notFunc
  | .nonFunc _ => .error .notFunc
  | .nilFunc _ => .error .nilFunc
  | .func s =>
    if inputs.length != s.params.length then .error .paramCount
    else match firstMismatch 0 (inputs.map reflected) s.params with
      | some i => .error (.paramType i)
      | none => .ok s

def expectedReturnCount (output : Option STy) (errorExpected : Bool) : Nat :=
  (if output.isSome then 1 else 0) + (if errorExpected then 1 else 0)

/-- `validateTypedReturnFunc`, with the test the last result is subjected to as a parameter -/
def checkStaticReturnWith (isErr : GoType → Bool) (s : Sig) (errorExpected : Bool)
    (output : Option STy) : Except Reject Unit :=
  if expectedReturnCount output errorExpected != s.results.length then .error .returnCount
  else if errorExpected && !(match s.results.getLast? with
      | some t => isErr t
      | none => false) then .error .lastNotError
  else match output with
    | some o =>
      if s.results.head? != some (reflected o) then .error .returnType else .ok ()
    | none => .ok ()

/-- the current test: identity with the predeclared interface -/
def isErrorType (t : GoType) : Bool := t == .error
/-- the former test: `Name() == "error"` -/
def isNamedError (t : GoType) : Bool := t.name == "error"

def checkStaticReturn := checkStaticReturnWith isErrorType

/-- `NewCallableFunction` -/
def newStatic (d : Decl) (h : HandlerV) : Except Reject Callable :=
  match checkInputs d.inputs h with
  | .error e => .error e
  | .ok s =>
    match checkStaticReturn s d.outputsError d.output with
    | .error e => .error e
    | .ok () => .ok ⟨s, d.output.isSome, false, d.outputsError⟩

def acceptsStatic (d : Decl) (h : HandlerV) : Bool :=
  match newStatic d h with
  | .ok _ => true
  | .error _ => false

/-- `NewCallableFunction` as it was before the repair (error result recognised by name) -/
def newStaticByName (d : Decl) (h : HandlerV) : Except Reject Callable :=
  match checkInputs d.inputs h with
  | .error e => .error e
  | .ok s =>
    match checkStaticReturnWith isNamedError s d.outputsError d.output with
    | .error e => .error e
    | .ok () => .ok ⟨s, d.output.isSome, false, d.outputsError⟩

def acceptsStaticByName (d : Decl) (h : HandlerV) : Bool :=
  match newStaticByName d h with
  | .ok _ => true
  | .error _ => false

/-- the `switch` of `NewDynamicCallableFunction` -/
def checkDynamicReturn (s : Sig) : Except Reject Unit :=
  match s.results with
  | [r0, r1] =>
    if r1 != .error then .error .dynNotError
    else if !r0.isInterface then .error .dynNotInterface
    else .ok ()
  | _ => .error .dynReturnCount

/-- `NewDynamicCallableFunction`; `typeHandlerNil` says whether the `typeHandler` argument is nil -/
def newDynamic (inputs : List STy) (h : HandlerV) (typeHandlerNil : Bool) : Except Reject Callable :=
  match checkInputs inputs h with
  | .error e => .error e
  | .ok s =>
    if typeHandlerNil then .error .noTypeHandler
    else match checkDynamicReturn s with
      | .error e => .error e
      | .ok () => .ok ⟨s, false, true, true⟩

def acceptsDynamic (inputs : List STy) (h : HandlerV) (typeHandlerNil : Bool) : Bool :=
  match newDynamic inputs h typeHandlerNil with
  | .ok _ => true
  | .error _ => false

/-! ## Values and `Call` -/

/-- two lists of equal length related position by position -/
inductive Forall₂ {α β : Type} (R : α → β → Prop) : List α → List β → Prop where
  | nil : Forall₂ R [] []
  | cons {a : α} {b : β} {as : List α} {bs : List β} :
      R a b → Forall₂ R as bs → Forall₂ R (a :: as) (b :: bs)

/-- a non-nil Go `any`: its dynamic (concrete) type and its contents -/
structure DynVal where
  ty : GoType
  data : V
deriving Repr, Inhabited

/-- a Go value of type `any`; `none` is nil -/
abbrev AnyV := Option DynVal

/-- one `reflect.Value` of the handler's result list -/
inductive RVal where
  /-- a result slot of interface type `sty` holding `v` (`none`: nil interface) -/
  | iface (sty : GoType) (v : AnyV)
  /-- a result slot of the concrete type `sty`; `isNil` for nil slices, maps and pointers -/
  | conc (sty : GoType) (isNil : Bool) (data : V)
deriving Repr, Inhabited

namespace RVal
/-- static type of the slot -/
def sty : RVal → GoType
  | iface t _ => t
  | conc t _ _ => t
/-- `reflect.Value.IsNil()`; `none` = it panics -/
def isNil? : RVal → Option Bool
  | iface _ v => some v.isNone
  | conc t n _ => if t.nilable then some n else none
/-- `reflect.Value.Interface()` -/
def interface : RVal → AnyV
  | iface _ v => v
  | conc t _ d => some ⟨t, d⟩
/-- the value is a legal inhabitant of a result slot of type `t` -/
def WellTyped (t : GoType) : RVal → Prop
  | iface s v => s = t ∧ t.isInterface = true ∧ ∀ dv, v = some dv → implements dv.ty t = true
  | conc s _ _ => s = t ∧ t.isInterface = false
end RVal

/-- The handler's behaviour: from the argument list it receives to its result list;
    `none` = the handler panics. -/
abbrev Beh := List AnyV → Option (List RVal)

/-- what `Call` does -/
inductive CallOut where
  /-- `(v, nil)` -/
  | value (v : AnyV)
  /-- `(nil, &FunctionCallError{IsFunctionReportedError: true, SourceError: e})` -/
  | errFn (e : DynVal)
  /-- `(nil, &FunctionCallError{IsFunctionReportedError: false, ..})` -/
  | errCall
  | panic
deriving Repr, Inhabited

/-- The argument loop of `Call`, left to right: untyped nil is passed to interface parameters as
    their zero value, anything else must be assignable; `none` = the call is refused. -/
def convertArgs : List GoType → List AnyV → Option (List AnyV)
  | [], [] => some []
  | p :: ps, a :: as =>
    match a with
    | none =>
      if p.isInterface then (convertArgs ps as).map (none :: ·) else none
    | some dv =>
      if assignable dv.ty p then (convertArgs ps as).map (some dv :: ·) else none
  | _, _ => none

/-- `errorVal.Interface().(error)` succeeds -/
def isError (dv : DynVal) : Bool := implements dv.ty .error

/-- the `switch` of `Call` on the handler's result list -/
def unpack (c : Callable) (result : List RVal) : CallOut :=
  let expected := if c.hasStaticOutput || c.dynamic then 1 else 0
  let got := result.length
  if expected == got then
    if expected == 0 then .value none
    else match result[0]? with
      | some r => .value r.interface
      | none => .panic
  else if expected + 1 == got then
    match result[expected]? with
    | none => .panic
    | some errorVal =>
      match errorVal.isNil? with
      | none => .panic
      | some true =>
        if expected == 0 then .value none
        else match result[0]? with
          | some r => .value r.interface
          | none => .panic
      | some false =>
        match errorVal.interface with
        | some dv => if isError dv then .errFn dv else .errCall
        | none => .errCall
  else .errCall

/-- `CallableFunctionSchema.Call` -/
def call (c : Callable) (beh : Beh) (args : List AnyV) : CallOut :=
  if args.length != c.sig.params.length then .errCall
  else match convertArgs c.sig.params args with
    | none => .errCall
    | some as =>
      match beh as with
      | none => .panic
      | some res => unpack c res

end Arca.Func
