import ArcaModel.Model.Ops
/-
  Well-formedness of schemas: the contract under which the SDK's constructors produce a schema
  (they panic otherwise), stated as an explicit predicate.
-/
namespace Arca

/-- a schema that denotes an object directly: an object, or a reference / scope resolving to one -/
def ObjLike (env : Env) : Ty → Prop
  | .obj _ _ => True
  | .ref id => ∃ oid ps, lookupS id env = some (.obj oid ps)
  | .scope objs root => ∃ oid ps, lookupS root objs = some (.obj oid ps)
  | _ => False

/-- `WF env t`: every reference in `t` resolves in its scope, every scope has its root, every
    default decodes, one-of members are objects. (`NewScopeSchema`, `NewObjectSchema`,
    `ApplyNamespace` panic when these fail, so no such schema value exists.) -/
inductive WF : Env → Ty → Prop
  | int {env a b u} : WF env (.int a b u)
  | float {env a b u} : WF env (.float a b u)
  | str {env a b p} : WF env (.str a b p)
  | bool {env} : WF env .bool
  | pattern {env} : WF env .pattern
  | enumInt {env vs u} : WF env (.enumInt vs u)
  | enumStr {env vs} : WF env (.enumStr vs)
  | any {env} : WF env .any
  | list {env item a b} : WF env item → WF env (.list item a b)
  | map {env k v a b} : WF env k → WF env v → WF env (.map k v a b)
  | obj {env id props} :
      (∀ np, np ∈ props → WF env np.2.ty) → (∀ np, np ∈ props → np.2.defaultV ≠ some none) →
      WF env (.obj id props)
  | oneOf {env ik d inl members} :
      (∀ m, m ∈ members → WF env m.2) → (∀ m, m ∈ members → ObjLike env m.2) →
      WF env (.oneOf ik d inl members)
  | ref {env id o} : lookupS id env = some o → WF env (.ref id)
  | scope {env objs root o} :
      lookupS root objs = some o → (∀ p, p ∈ objs → WF objs p.2) → WF env (.scope objs root)

/-- every object of the enclosing scope is itself well-formed in that scope -/
def EnvWF (env : Env) : Prop := ∀ p, p ∈ env → WF env p.2

theorem lookupS_mem {α} {k : String} {m : List (String × α)} {v : α} (h : lookupS k m = some v) : (k, v) ∈ m := by
  induction m with
  | nil => simp [lookupS] at h
  | cons p rest ih =>
    obtain ⟨k', v'⟩ := p
    simp only [lookupS] at h
    split at h
    · rename_i hk
      have : k = k' := by simpa using hk
      simp_all
    · exact List.mem_cons_of_mem _ (ih h)

theorem lookupK_mem {α} {k : Key} {m : List (Key × α)} {v : α} (h : lookupK k m = some v) : (k, v) ∈ m := by
  induction m with
  | nil => simp [lookupK] at h
  | cons p rest ih =>
    obtain ⟨k', v'⟩ := p
    simp only [lookupK] at h
    split at h
    · rename_i hk
      have : k = k' := by simpa using hk
      simp_all
    · exact List.mem_cons_of_mem _ (ih h)

end Arca
