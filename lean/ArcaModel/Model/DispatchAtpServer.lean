import Lean.Data.Json
import Std.Data.HashSet
import ArcaModel.Model.AtpServer
/-
  Line-protocol handler for op "ATP_SERVER_TRACE": is the observed history of one real
  `RunATPServer` session a trace of the model (`Arca.AtpServer.step?`), and is its end legal?

  The history lists the *visible* events in the order the harness logged them:
    offer / closeInput / breakOutput / cancel      (logged before the harness performs them)
    enter src / exit src b                          (logged by the gated step handler itself)
    out m                                           (logged by the output reader: the model's `observe`)
    ret n                                           (RunATPServer returned n errors)
  Between two visible events the server may perform any number of internal actions
  (`internalActs`); the checker keeps the set of all model states compatible with the prefix
  (subset construction, de-duplicated with a hash set, bounded).
  End of history: "returned" needs a state that has returned with every written message observed;
  "hang" needs a quiescent state (no internal action and no `ret` enabled) - a hang the model does
  not have is reported as not-a-trace; "crash" needs a crashed state.
  (Executable glue only; nothing here is used in a theorem.)
-/
open Lean

namespace Arca.Dispatch.AtpServerTrace

open Arca.AtpServer

abbrev AR := Except String

def atpCfgOf : String → AR Cfg
  | "repaired" => pure repaired
  | "pinned" => pure pinned
  | s => throw s!"bad cfg {s}"

def atpOptNat (j : Json) (k : String) : AR (Option Nat) :=
  match j.getObjVal? k with
  | .ok .null => pure none
  | .ok v => do return some (← v.getNat?)
  | .error _ => pure none

def atpBool (j : Json) (k : String) : Bool :=
  match j.getObjVal? k with
  | .ok (.bool b) => b
  | _ => false

def atpItem (j : Json) : AR Item := do
  let k ← (← j.getObjVal? "k").getStr?
  if k == "bad" then return .bad
  let data ← match j.getObjVal? "data" with
    | .ok .null => pure none
    | .error _ => pure none
    | .ok d =>
      let ws := match d.getObjVal? "ws" with
        | .ok (.bool b) => some b
        | _ => none
      pure (some (Payload.mk ws (atpBool d "sg")))
  return .msg ⟨← atpOptNat j "id", ← atpOptNat j "run", data⟩

inductive AtpEv where
  | act (a : Act)
  | enter (src : Nat)
  | exit (src : Nat) (b : Beh)
  | out (m : OutMsg)          -- ghost fields are 0 / loop and ignored
  | ret (n : Nat)

def atpBeh : String → AR Beh
  | "ok" => pure .ok | "fail" => pure .fail | "panic" => pure .panic
  | s => throw s!"bad behaviour {s}"

def atpEv (j : Json) : AR AtpEv := do
  let e ← (← j.getObjVal? "e").getStr?
  match e with
  | "offer" => return .act (.offer (← atpItem (← j.getObjVal? "item")))
  | "closeInput" => return .act .closeInput
  | "breakOutput" => return .act .breakOutput
  | "cancel" => return .act .cancel
  | "enter" => return .enter (← (← j.getObjVal? "src").getNat?)
  | "exit" => return .exit (← (← j.getObjVal? "src").getNat?) (← atpBeh (← (← j.getObjVal? "b").getStr?))
  | "out" =>
    let m ← j.getObjVal? "m"
    let k ← (← m.getObjVal? "k").getStr?
    match k with
    | "hello" => return .out .hello
    | "done" => return .out (.workDone (← (← m.getObjVal? "run").getNat?) 0)
    | "err" => return .out (.error ⟨← (← m.getObjVal? "run").getNat?, atpBool m "sf", atpBool m "vf", .loop⟩)
    | _ => throw s!"bad out kind {k}"
  | "ret" => return .ret (← (← j.getObjVal? "n").getNat?)
  | _ => throw s!"bad event {e}"

/-- equality of written messages up to ghost fields -/
def outMatches : OutMsg → OutMsg → Bool
  | .hello, .hello => true
  | .workDone r _, .workDone r' _ => r == r'
  | .error e, .error e' => e.run == e'.run && e.stepFatal == e'.stepFatal && e.serverFatal == e'.serverFatal
  | _, _ => false

def gidsOfSrc (s : State) (src : Nat) : List Gid :=
  (List.range s.gs.length).filter fun g =>
    match s.gs[g]? with
    | some x => x.src == src && x.kind == .step
    | none => false

/-- successors of `s` under one visible event -/
def visibleSucc (c : Cfg) (s : State) : AtpEv → List State
  | .act a => (step? c s a).toList
  | .enter src => (gidsOfSrc s src).filterMap fun g => step? c s (.gStart g .enter)
  | .exit src b => (gidsOfSrc s src).filterMap fun g => step? c s (.exit g b)
  | .out m =>
    match s.written[s.seen]? with
    | some w => if outMatches w m then (step? c s .observe).toList else []
    | none => []
  | .ret n => if s.errors.length == n then (step? c s .ret).toList else []

/-! Search-space reductions. Both are sound for the question asked (is there an accepting run):
  `canon` forgets what no later transition or acceptance test reads; `viable` drops states from
  which the rest of the observed history cannot be produced. -/

def dummyErr : SErr := ⟨0, false, false, .loop⟩

def eraseErr (e : SErr) : SErr := { e with origin := .loop }

def eraseOut : OutMsg → OutMsg
  | .hello => .hello
  | .workDone r _ => .workDone r 0
  | .error e => .error (eraseErr e)

/-- ghost fields erased; the observed prefix of `written` dropped; the collected errors reduced to
    their number; finished goroutines reduced to "finished"; once the handler only drains, the
    content of the reports it will still receive is irrelevant -/
def canon (s : State) : State :=
  -- once nothing the handler receives can be written any more, the content of the reports is
  -- irrelevant (only their number is returned)
  let blind := s.stopped || s.outBroken
  let q := if blind then s.queue.map (fun _ => dummyErr) else s.queue.map eraseErr
  let h := match s.h with
    | .holding e => if blind then .holding dummyErr else .holding (eraseErr e)
    | x => x
  let loop := match s.loop with
    | .sending e st => if blind then .sending dummyErr st else .sending (eraseErr e) st
    | x => x
  { s with
    queue := q, h := h, loop := loop,
    errors := s.errors.map (fun _ => dummyErr),
    written := (s.written.drop s.seen).map eraseOut, seen := 0,
    gs := s.gs.map fun x => if x.pc.done then ⟨x.kind, 0, 0, .doneOk⟩ else x }

structure Look where
  /-- the `out` events still to come, in order -/
  outs : List OutMsg
  /-- a breakOutput or cancel event is still to come -/
  fault : Bool
  /-- the `src` of the handler entries / exits still to come -/
  enters : Std.HashSet Nat
  exits : Std.HashSet Nat
  fin : String

def isErrOut : OutMsg → Bool
  | .error _ => true
  | _ => false

/-- the reports the handler holds or will receive next, in the order it will write them -/
def pendingErrs (s : State) : List SErr :=
  (match s.h with | .holding e => [e] | _ => []) ++ s.queue

/-- match pending reports against the error messages still to be observed: the next error
    messages written are the pending reports, in order; the handler stops after a server-fatal
    one; pending reports beyond the observed error messages are never written, which needs a
    later fault (output broken or cancellation) -/
def errsOk (fault : Bool) : List SErr → List OutMsg → Bool
  | [], _ => true
  | _ :: _, [] => fault
  | e :: es, o :: os => outMatches (.error e) o && (e.serverFatal || errsOk fault es os)

def viable (lk : Look) (s : State) : Bool :=
  if s.crashed then lk.fin == "crash" else
  let unobs := s.written.drop s.seen
  let pre := (unobs.zip lk.outs).all fun (w, o) => outMatches w o
  let lenOk := lk.fin != "returned" || unobs.length ≤ lk.outs.length
  -- nothing is written any more once the output is broken
  let brokenOk := !s.outBroken || lk.outs.length ≤ unobs.length
  let rest := (lk.outs.drop unobs.length).filter isErrOut
  let pend := lk.fin != "returned" || s.stopped || s.outBroken || s.h == .done
    || errsOk (lk.fault || s.cancelled) (pendingErrs s) rest
  -- a step whose handler entry (exit) is still to be observed has not been rejected (left)
  let stepsOk := s.gs.all fun x =>
    x.kind != .step ||
      ((!lk.enters.contains x.src || x.pc == .spawned) &&
       (!lk.exits.contains x.src || x.pc == .spawned || x.pc == .entered))
  -- every goroutine (and the read loop) that has a report to make will make it: without a fault
  -- there are at least as many error messages still to be observed
  let owed := (s.gs.filter fun x => x.pc == .failing).length +
    (match s.loop with | .sending _ _ => 1 | _ => 0) + (pendingErrs s).length
  -- (not when a server-fatal error message is still to come: the handler stops after it and the
  -- later reports are never written)
  let fatalAhead := rest.any fun o => match o with | .error e => e.serverFatal | _ => false
  let owedOk := lk.fin != "returned" || s.stopped || s.outBroken || s.h == .done || lk.fault || s.cancelled
    || fatalAhead || owed ≤ rest.length
  pre && lenOk && brokenOk && pend && stepsOk && owedOk

/-- the internal actions that can be enabled in `s` (the same successors as `internalActs`, without
    trying the actions of goroutines that wait for the plugin or have finished) -/
def enabledActs (s : State) : List Act :=
  [.loopRead, .loopReadErr, .loopSend, .loopEnd, .hRecv, .hEmit, .hCancel, .close] ++
  (s.gs.zipIdx.flatMap fun (x, g) =>
    match x.pc, x.kind with
    | .spawned, .step => [Act.gStart g .reject]
    | .spawned, .signal => [.sigRun g .ok, .sigRun g .err, .sigRun g .unknown, .sigRun g .panic]
    | .writing, _ => [.gWrite g]
    | .failing, _ => [.gSend g]
    | _, _ => [])

def internalSucc (c : Cfg) (s : State) : List State :=
  (enabledActs s).filterMap (step? c s)

/-- A signal goroutine's only own action (`sigRun`) touches nothing but its own control state and
    the WaitGroup counter, commutes with every other action and disables none; in a history that
    ends with the server's return it has to happen. So its outcome can be decided the moment the
    goroutine is spawned: the undecided state is replaced by its successors (otherwise n signals
    in flight give 2^n states that differ only in which of them have already run). -/
partial def settleSignals (c : Cfg) (s : State) : List State :=
  match (List.range s.gs.length).find? (fun g =>
      match s.gs[g]? with
      | some x => x.kind == .signal && x.pc == .spawned
      | none => false) with
  | none => [s]
  | some g =>
    ([SigRes.ok, .err, .unknown, .panic].filterMap fun r => step? c s (.sigRun g r)).eraseDups.flatMap
      (settleSignals c)

def settle (c : Cfg) (lk : Look) (s : State) : List State :=
  if lk.fin == "returned" && !s.crashed then settleSignals c s else [s]

def atpStateBound : Nat := 300000

/-- closure of a set of states under internal actions; `none` = bound exceeded -/
partial def tauClosure (c : Cfg) (lk : Look) (work : List State) (seen : Std.HashSet State) :
    Option (Std.HashSet State) :=
  match work with
  | [] => some seen
  | s :: rest =>
    if seen.size > atpStateBound then none else
    let (work', seen') := ((internalSucc c s).flatMap (settle c lk)).foldl (fun (acc : List State × Std.HashSet State) t0 =>
      let t := canon t0
      if !viable lk t || acc.2.contains t then acc else (t :: acc.1, acc.2.insert t)) (rest, seen)
    tauClosure c lk work' seen'

def closeSet (c : Cfg) (lk : Look) (ss : List State) : Option (Std.HashSet State) :=
  let init := (ss.flatMap (settle c lk)).foldl (fun (h : Std.HashSet State) s0 =>
    let s := canon s0
    if viable lk s then h.insert s else h) {}
  tauClosure c lk init.toList init

def quiescent (c : Cfg) (s : State) : Bool :=
  !s.crashed && !s.returned && (internalSucc c s).isEmpty && (step? c s .ret).isNone

def lookOf (fin : String) (evs : List AtpEv) : Look :=
  { outs := evs.filterMap fun e => match e with | .out m => some m | _ => none,
    fault := evs.any fun e => match e with
      | .act .breakOutput => true
      | .act .cancel => true
      | _ => false,
    enters := evs.foldl (fun (h : Std.HashSet Nat) e => match e with | .enter k => h.insert k | _ => h) {},
    exits := evs.foldl (fun (h : Std.HashSet Nat) e => match e with | .exit k _ => h.insert k | _ => h) {},
    fin := fin }

def handleAtpServerTrace (j : Json) : AR Json := do
  let c ← atpCfgOf (← (← j.getObjVal? "cfg").getStr?)
  let evs ← (← (← j.getObjVal? "events").getArr?).toList.mapM atpEv
  let fin ← (← j.getObjVal? "end").getStr?
  let bound := Json.mkObj [("r", "search-bound")]
  let some start := closeSet c (lookOf fin evs) [State.init] | return bound
  let mut cur := start
  let mut i : Nat := 0
  let mut rest := evs
  let mut sizes : Array Json := #[Json.num (JsonNumber.fromNat start.size)]
  let dbg := atpBool j "debug"
  for ev in evs do
    rest := rest.drop 1
    let next := cur.toList.flatMap fun s => visibleSucc c s ev
    let some cl := closeSet c (lookOf fin rest) next |
      return (if dbg then Json.mkObj [("r", "search-bound"), ("sizes", Json.arr sizes)] else bound)
    sizes := sizes.push (Json.num (JsonNumber.fromNat cl.size))
    if cl.isEmpty then
      return Json.mkObj [("r", "not-a-trace"), ("at", Json.num (JsonNumber.fromNat i))]
    cur := cl
    i := i + 1
  let okEnd := match fin with
    | "returned" => cur.toList.any fun s => s.returned && s.seen == s.written.length
    | "hang" => cur.toList.any (quiescent c)
    | "crash" => cur.toList.any fun s => s.crashed
    | _ => false
  if okEnd then return (if dbg then Json.mkObj [("r", "ok"), ("sizes", Json.arr sizes)] else Json.mkObj [("r", "ok")])
  else return Json.mkObj [("r", "not-a-trace"), ("at", Json.num (JsonNumber.fromNat i)), ("end", Json.str fin)]

end Arca.Dispatch.AtpServerTrace

namespace Arca.Dispatch

/-- handler of the ATP server trace check -/
def atpServerHandler (op : String) (j : Json) : Option (Except String Json) :=
  if op == "ATP_SERVER_TRACE" then some (AtpServerTrace.handleAtpServerTrace j) else none

end Arca.Dispatch
