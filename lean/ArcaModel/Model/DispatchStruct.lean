import Lean.Data.Json
import ArcaModel.Model.Dispatch
import ArcaModel.Model.StructMapWF
/-
  Line-protocol handler of the struct-mapping model (ops "SMU", "SMV", "SMS").

  case:   {"op":"SMU"|"SMV"|"SMS","sschema":S,"sv":X,"ext":E,"fuel":n}
          S ::= {"t":"leaf","ty":T}                       T = a schema of the schema protocol
              | {"t":"list","item":S,"min":..,"max":..} | {"t":"map","k":T,"v":S,"min":..,"max":..}
              | {"t":"scope","inner":S}
              | {"t":"oneOf","intKey":b,"disc":..,"inlined":b,"members":[[key,S],...]}   key: decimal text for int keys
              | {"t":"sobj","id":..,"ptrT":b,"st":{"name":..,"fields":[F,...]},"props":[[name,P],...]}
          F ::= {"name":..,"tag":..,"exported":b,"ty":G,"zero":X}
          G ::= {"g":"bool"|"str"|"iface"|"regex"} | {"g":"int","k":kind} | {"g":"float","k":"f32"|"f64"}
              | {"g":"named","id":..,"u":G} | {"g":"slice","e":G} | {"g":"map","k":G,"v":G}
              | {"g":"struct","id":..} | {"g":"ptr","e":G}
          P ::= {"ty":S,"required":b,"requiredIf":[..],"requiredIfNot":[..],"conflicts":[..],
                 "default":{"d1":{"v":V},"d2":{"v":V}},"disabled":b,"emptyIsDefault":b}
          X ::= a value of the schema protocol, or one of its map forms with a reserved key tag:
                {"m":["nilptr",false,[]]}  {"m":["ptr",false,[[{"s":"*"},X]]]}
                {"m":["struct:ID",false,[[{"s":field},X],...]]}
                {"m":["nilslice",false,[]]}  {"m":["nilmap:KEY",valAny,[]]}
                {"m":["slice",false,[[{"i":["int",index]},X],...]]}  {"m":["smap:KEY",valAny,[[V,X],...]]}
  result: {"r":"ok","v":X} | {"r":"err","c":b,"path":[..]} | {"r":"panic"} | {"r":"fuel"}, plus
          "wf": `wfSB 60 S` and "exact": `exactSB 60 S` (informative: the share of cases the theorems
          speak about; a case with "wf":true and "r":"panic" would contradict `C04_struct_case_no_panic`)
  The schema is constructed first (`SM.construct`), then the operation runs (`SM.srun`).
  (Executable glue only; nothing here is used in a theorem.)
-/
open Lean

namespace Arca.Dispatch
open Arca.SM

partial def decG (j : Json) : R GoTy := do
  let g ← getStr (← field j "g")
  match g with
  | "bool" => return .bool
  | "str" => return .str
  | "iface" => return .iface
  | "regex" => return .regex
  | "int" =>
    let k ← getStr (← field j "k")
    let some kind := IKind.ofName? k | throw s!"bad int kind {k}"
    return .int kind
  | "float" => return .float (if (← getStr (← field j "k")) == "f32" then .f32 else .f64)
  | "named" => return .named (← getStr (← field j "id")) (← decG (← field j "u"))
  | "slice" => return .slice (← decG (← field j "e"))
  | "map" => return .map (← decG (← field j "k")) (← decG (← field j "v"))
  | "struct" => return .struct (← getStr (← field j "id"))
  | "ptr" => return .ptr (← decG (← field j "e"))
  | _ => throw s!"bad go type {g}"

partial def decSV (j : Json) : R SV := do
  if let .ok a := j.getObjVal? "m" then
    let a ← a.getArr?
    let tag ← getStr a[0]!
    let va := match a[1]! with | .bool b => b | _ => false
    let es ← a[2]!.getArr?
    if tag == "nilptr" then return .nilPtr
    if tag == "nilslice" then return .nilSlice
    if tag == "ptr" then
      let p ← es[0]!.getArr?
      return .ptr (← decSV p[1]!)
    if tag.startsWith "struct:" then
      let fs ← es.toList.mapM fun e => do
        let p ← e.getArr?
        return (← getStr (← field p[0]! "s"), ← decSV p[1]!)
      return .struct (tag.drop 7).toString fs
    if tag.startsWith "nilmap:" then return .nilMap ⟨keyTyOf (tag.drop 7).toString, va⟩
    if tag == "slice" then
      return .slice (← es.toList.mapM fun e => do
        let p ← e.getArr?
        decSV p[1]!)
    if tag.startsWith "smap:" then
      let kvs ← es.toList.mapM fun e => do
        let p ← e.getArr?
        return (← decV p[0]!, ← decSV p[1]!)
      return .map ⟨keyTyOf (tag.drop 5).toString, va⟩ kvs
  return .val (← decV j)

def tagged (tag : String) (va : Bool) (es : List Json) : Json :=
  Json.mkObj [("m", .arr #[.str tag, .bool va, .arr es.toArray])]

partial def encSV : SV → Json
  | .val v => encV v
  | .nilSlice => tagged "nilslice" false []
  | .nilMap sh => tagged ("nilmap:" ++ keyTyName sh.key) sh.valAny []
  | .nilPtr => tagged "nilptr" false []
  | .ptr x => tagged "ptr" false [Json.arr #[Json.mkObj [("s", "*")], encSV x]]
  | .struct id fs => tagged ("struct:" ++ id) false (fs.map fun (n, x) => Json.arr #[Json.mkObj [("s", .str n)], encSV x])
  | .slice xs => tagged "slice" false ((List.range xs.length).zip xs |>.map fun (i, x) =>
      Json.arr #[Json.mkObj [("i", .arr #[.str "int", .str (toString i)])], encSV x])
  | .map sh kvs => tagged ("smap:" ++ keyTyName sh.key) sh.valAny (kvs.map fun (k, x) => Json.arr #[encV k, encSV x])

def decStructField (j : Json) : R Field := do
  return {
    name := ← getStr (← field j "name")
    tag := match fieldOpt j "tag" with | some (.str s) => s | _ => ""
    exported := getBool j "exported"
    ty := ← decG (← field j "ty")
    zero := ← decSV (← field j "zero") }

def decDefault (pj : Json) : R (Option DefaultV) :=
  match fieldOpt pj "default" with
  | none => pure none
  | some d => do
    let d1 ← match fieldOpt d "d1" with
      | some w => do pure (some (← decV (← field w "v")))
      | none => pure none
    let d2 ← match fieldOpt d "d2" with
      | some w => do pure (some (← decV (← field w "v")))
      | none => pure none
    pure (some (DefaultV.mk d1 d2))

partial def decStructTy (j : Json) : R STy := do
  let t ← getStr (← field j "t")
  match t with
  | "leaf" => return .leaf (← decTy (← field j "ty"))
  | "list" => return .list (← decStructTy (← field j "item")) (← optDec j "min") (← optDec j "max")
  | "map" => return .map (← decTy (← field j "k")) (← decStructTy (← field j "v")) (← optDec j "min") (← optDec j "max")
  | "scope" => return .scope (← decStructTy (← field j "inner"))
  | "oneOf" =>
    let intKey := getBool j "intKey"
    let ms ← arrField j "members"
    let members ← ms.toList.mapM fun e => do
      let p ← e.getArr?
      return (← decKey intKey p[0]!, ← decStructTy p[1]!)
    return .oneOf intKey (← getStr (← field j "disc")) (getBool j "inlined") members
  | "sobj" =>
    let stj ← field j "st"
    let fs ← (← arrField stj "fields").toList.mapM decStructField
    let st : StructTy := ⟨← getStr (← field stj "name"), fs⟩
    let props ← (← arrField j "props").toList.mapM fun e => do
      let p ← e.getArr?
      let name ← getStr p[0]!
      let pj := p[1]!
      return (name, SProp.mk (← decStructTy (← field pj "ty")) (getBool pj "required") (← strList pj "requiredIf")
        (← strList pj "requiredIfNot") (← strList pj "conflicts") (← decDefault pj) (getBool pj "disabled")
        (getBool pj "emptyIsDefault"))
    return .obj (← getStr (← field j "id")) st (getBool j "ptrT") props
  | _ => throw s!"bad struct schema node {t}"

def encOutS (o : Out SV) : Json :=
  match o with
  | .ok v => Json.mkObj [("r", "ok"), ("v", encSV v)]
  | .err e => Json.mkObj [("r", "err"), ("c", .bool e.constraint),
      ("path", .arr (e.path.map Json.str).toArray)]
  | .panic => Json.mkObj [("r", "panic")]
  | .fuel => Json.mkObj [("r", "fuel")]

def handleStructOp (op : SOp) (j : Json) : R Json := do
  let ty ← decStructTy (← field j "sschema")
  let v ← decSV (← field j "sv")
  let ext ← match fieldOpt j "ext" with
    | some e => decExt e
    | none => decExt (Json.mkObj [])
  let fuel := match fieldOpt j "fuel" with
    | some (.num n) => n.mantissa.toNat
    | _ => 200
  -- `wf` / `exact`: is the schema one the totality / round-trip theorems speak about (not compared)
  let out := encOutS (caseRun ext fuel op ty v)
  return out.setObjVal! "wf" (.bool (wfSB 60 ty)) |>.setObjVal! "exact" (.bool (exactSB 60 ty))

/-- handler of ops "SMU", "SMV", "SMS" -/
def structHandler (op : String) (j : Json) : Option (R Json) :=
  match op with
  | "SMU" => some (handleStructOp .U j)
  | "SMV" => some (handleStructOp .V j)
  | "SMS" => some (handleStructOp .S j)
  | _ => none

end Arca.Dispatch
