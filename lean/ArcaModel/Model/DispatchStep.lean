import Lean.Data.Json
import ArcaModel.Model.Dispatch
import ArcaModel.Model.Step
/-
  Line-protocol handler of the step-call model (property C11). Executable glue only.

  Ops and case fields (schemas, values and `ext` in the forms of `Dispatch.lean`):

  * `CALLSTEP`        `plugin`, `step`, `v` (raw input), `beh`
  * `CALLSTEP_CALLS`  same fields; result is always `ok` with the list of handler invocations
  * `CALLSIGNAL`      `plugin`, `step`, `signal`, `v`, `beh`
  * `CALLSIGNAL_CALLS`
  * `STEPDATA`        `hasInit`, `events`: a sequential history of calls on one step

  `plugin` = `[[stepID, {"input": Ty, "outputs": [[id, Ty]..], "signals": [[id, Ty]..]}] ..]`
  `beh`    = `{"kind":"ret","oid":"..","data":V}` (the handler returns that, whatever its input)
             or `{"kind":"panic"}`; for signals `{"kind":"ret"}` or `{"kind":"panic"}`.
  `events` = `[["step", run] | ["signal", run, id] | ["nocall", run]] ..` where `nocall` is a call
             that fails before `setupStepData` (bad input, unknown signal ID).

  Results: `{"r":"ok","v":..}` or `{"r":"err-<kind>"}` / `panic` / `fuel`; the error kind is part
  of `"r"` because the comparator compares `"r"` always and `"v"` only for `ok`.
  `CALLSTEP` ok value: the string-keyed map `{oid, data, calls}`; `CALLSIGNAL` ok value: the list
  of handler invocations. `STEPDATA` ok value: `{seen: [data ordinal | null | "-"] per event,
  inits: [[run, ordinal]..]}`.
-/
open Lean

namespace Arca.Dispatch
open Arca.Step

def decNamedTys (j : Json) (k : String) : R (List (String × Ty)) := do
  let a ← arrField j k
  a.toList.mapM fun e => do
    let p ← e.getArr?
    return (← getStr p[0]!, ← decTy p[1]!)

def decStepD (j : Json) : R StepD := do
  return ⟨← decTy (← field j "input"), ← decNamedTys j "outputs", ← decNamedTys j "signals"⟩

def decPlugin (j : Json) : R Plugin := do
  let a ← (← field j "plugin").getArr?
  a.toList.mapM fun e => do
    let p ← e.getArr?
    return (← getStr p[0]!, ← decStepD p[1]!)

def decHandlerBeh (j : Json) : R HandlerBeh := do
  let b ← field j "beh"
  let kind ← getStr (← field b "kind")
  match kind with
  | "panic" => return fun _ => none
  | "ret" =>
    let oid ← match fieldOpt b "oid" with
      | some s => getStr s
      | none => pure ""
    let d ← match fieldOpt b "data" with
      | some d => decV d
      | none => pure V.nil
    return fun _ => some (oid, d)
  | _ => throw s!"bad behaviour {kind}"

def decSignalBeh (j : Json) : R SignalBeh := do
  let b ← field j "beh"
  let kind ← getStr (← field b "kind")
  match kind with
  | "panic" => return fun _ => false
  | "ret" => return fun _ => true
  | _ => throw s!"bad behaviour {kind}"

def errKindName : ErrKind → String
  | .unknownStep => "err-unknown-step"
  | .unknownSignal => "err-unknown-signal"
  | .invalidInput => "err-invalid-input"
  | .undeclaredOutput => "err-undeclared-output"
  | .invalidOutput => "err-invalid-output"
  | .unserializableOutput => "err-unserializable-output"

def strMap (kvs : List (String × V)) : V := .map .strAny (kvs.map fun (k, v) => (V.str k, v))

def encStepOut (o : StepOut × List V) : Json :=
  match o.1 with
  | .ok oid w => Json.mkObj [("r", "ok"),
      ("v", encV (strMap [("calls", .list o.2), ("data", w), ("oid", .str oid)]))]
  | .err k => Json.mkObj [("r", errKindName k)]
  | .panic => Json.mkObj [("r", "panic")]
  | .fuel => Json.mkObj [("r", "fuel")]

def encSigOut (o : SigOut × List V) : Json :=
  match o.1 with
  | .ok => Json.mkObj [("r", "ok"), ("v", encV (.list o.2))]
  | .err k => Json.mkObj [("r", errKindName k)]
  | .panic => Json.mkObj [("r", "panic")]
  | .fuel => Json.mkObj [("r", "fuel")]

def encCalls (calls : List V) : Json := Json.mkObj [("r", "ok"), ("v", encV (.list calls))]

def caseExt (j : Json) : R Ext :=
  match fieldOpt j "ext" with
  | some e => decExt e
  | none => decExt (Json.mkObj [])

def caseFuel (j : Json) : Nat :=
  match fieldOpt j "fuel" with
  | some (.num n) => n.mantissa.toNat
  | _ => 400

def runCallStep (j : Json) : R (StepOut × List V) := do
  let p ← decPlugin j
  let beh ← decHandlerBeh j
  let stepID ← getStr (← field j "step")
  let raw ← decV (← field j "v")
  return callStep (← caseExt j) (caseFuel j) p (fun _ => beh) stepID raw

def runCallSignal (j : Json) : R (SigOut × List V) := do
  let p ← decPlugin j
  let beh ← decSignalBeh j
  let stepID ← getStr (← field j "step")
  let sigID ← match fieldOpt j "signal" with  -- the empty ID is written as an absent field
    | some s => getStr s
    | none => pure ""
  let raw ← decV (← field j "v")
  return callSignal (← caseExt j) (caseFuel j) p (fun _ _ => beh) stepID sigID raw

/-- one event of a sequential history: the call passes `setupStepData` and then at once invokes its
    handler (it is the only pending call) -/
def stepDataEvent (hasInit : Bool) (σ : St × List V) (e : Json) : R (St × List V) := do
  let a ← e.getArr?
  let kind ← getStr a[0]!
  let run ← getStr a[1]!
  let obs (σ' : St) : V := match σ'.seen.getLast? with
    | some c => (match c.data with
      | some n => V.int .int64 (Int.ofNat n)
      | none => V.nil)
    | none => V.str "?"
  match kind with
  | "step" =>
    let σ' := apply hasInit (apply hasInit σ.1 (.stepArrives run)) (.invoke 0)
    return (σ', σ.2 ++ [obs σ'])
  | "signal" =>
    let s ← getStr a[2]!
    let σ' := apply hasInit (apply hasInit σ.1 (.signalArrives run s)) (.invoke 0)
    return (σ', σ.2 ++ [obs σ'])
  | "nocall" => return (σ.1, σ.2 ++ [V.str "-"])
  | _ => throw s!"bad event {kind}"

def runStepData (j : Json) : R Json := do
  let hasInit := getBool j "hasInit"
  let evs ← arrField j "events"
  let (σ, seen) ← evs.toList.foldlM (stepDataEvent hasInit) (St.init, [])
  let inits : List V := σ.inits.reverse.map fun (r, n) => V.list [.str r, .int .int64 (Int.ofNat n)]
  return Json.mkObj [("r", "ok"), ("v", encV (strMap [("inits", .list inits), ("seen", .list seen)]))]

/-- handler of the step-call ops -/
def stepHandler (op : String) (j : Json) : Option (R Json) :=
  match op with
  | "CALLSTEP" => some do return encStepOut (← runCallStep j)
  | "CALLSTEP_CALLS" => some do return encCalls (← runCallStep j).2
  | "CALLSIGNAL" => some do return encSigOut (← runCallSignal j)
  | "CALLSIGNAL_CALLS" => some do return encCalls (← runCallSignal j).2
  | "STEPDATA" => some (runStepData j)
  | _ => none

end Arca.Dispatch
