import Lean.Data.Json
import ArcaModel.Model.Ops
import ArcaModel.Model.Compat
/-
  JSON codec of the line protocol and the dispatcher from a decoded case to the model.
  (Executable glue only; nothing here is used in a theorem.)
-/
open Lean

namespace Arca.Dispatch

abbrev R := Except String

def hexVal (c : Char) : Option Nat :=
  if '0' ≤ c && c ≤ '9' then some (c.toNat - '0'.toNat)
  else if 'a' ≤ c && c ≤ 'f' then some (c.toNat - 'a'.toNat + 10)
  else if 'A' ≤ c && c ≤ 'F' then some (c.toNat - 'A'.toNat + 10)
  else none

def parseHex (s : String) : R Nat :=
  s.toList.foldlM (fun acc c => match hexVal c with
    | some d => pure (acc * 16 + d)
    | none => throw s!"bad hex {s}") 0

def hexDigit (n : Nat) : Char :=
  if n < 10 then Char.ofNat (n + '0'.toNat) else Char.ofNat (n - 10 + 'a'.toNat)

def toHex16 (n : Nat) : String :=
  String.ofList ((List.range 16).reverse.map fun i => hexDigit ((n / 16 ^ i) % 16))

def parseDec (s : String) : R Int :=
  match s.toInt? with
  | some n => pure n
  | none => throw s!"bad decimal {s}"

def getStr (j : Json) : R String := j.getStr?
def field (j : Json) (k : String) : R Json := j.getObjVal? k
def fieldOpt (j : Json) (k : String) : Option Json :=
  match j.getObjVal? k with
  | .ok .null => none
  | .ok v => some v
  | .error _ => none

def optDec (j : Json) (k : String) : R (Option Int) :=
  match fieldOpt j k with
  | none => pure none
  | some v => do let s ← getStr v; return some (← parseDec s)

def optHex (j : Json) (k : String) : R (Option Nat) :=
  match fieldOpt j k with
  | none => pure none
  | some v => do let s ← getStr v; return some (← parseHex s)

/-- array field, absent or null = empty -/
def arrField (j : Json) (k : String) : R (Array Json) :=
  match fieldOpt j k with
  | some a => a.getArr?
  | none => pure #[]

def getBool (j : Json) (k : String) : Bool :=
  match j.getObjVal? k with
  | .ok (.bool b) => b
  | _ => false

def strList (j : Json) (k : String) : R (List String) :=
  match fieldOpt j k with
  | none => pure []
  | some v => do
    let a ← v.getArr?
    a.toList.mapM getStr

def keyTyOf : String → KeyTy
  | "any" => .any | "string" => .string | "int64" => .int64 | _ => .other

def keyTyName : KeyTy → String
  | .any => "any" | .string => "string" | .int64 => "int64" | .other => "other"

partial def decV (j : Json) : R V := do
  match j with
  | .null => return .nil
  | _ =>
    if let .ok b := j.getObjVal? "b" then
      return .bool (← b.getBool?)
    if let .ok a := j.getObjVal? "i" then
      let a ← a.getArr?
      let k ← getStr a[0]!
      let some kind := IKind.ofName? k | throw s!"bad int kind {k}"
      return .int kind (← parseDec (← getStr a[1]!))
    if let .ok a := j.getObjVal? "f" then
      let a ← a.getArr?
      let k ← getStr a[0]!
      return .float (if k == "f32" then .f32 else .f64) (← parseHex (← getStr a[1]!))
    if let .ok s := j.getObjVal? "s" then
      return .str (← getStr s)
    if let .ok a := j.getObjVal? "y" then
      let a ← a.getArr?
      return .bytes (← a.toList.mapM fun x => do return (← x.getNat?))
    if let .ok a := j.getObjVal? "l" then
      let a ← a.getArr?
      return .list (← a.toList.mapM decV)
    if let .ok a := j.getObjVal? "m" then
      let a ← a.getArr?
      let k ← getStr a[0]!
      let va ← a[1]!.getBool?
      let es ← a[2]!.getArr?
      let kvs ← es.toList.mapM fun e => do
        let p ← e.getArr?
        return (← decV p[0]!, ← decV p[1]!)
      return .map ⟨keyTyOf k, va⟩ kvs
    if let .ok n := j.getObjVal? "n" then
      return .named (← decV n)
    if let .ok s := j.getObjVal? "re" then
      return .regex (← getStr s)
    if let .ok _ := j.getObjVal? "o" then
      return .opaque
    throw s!"bad value {j.compress}"

partial def encV : V → Json
  | .nil => .null
  | .bool b => Json.mkObj [("b", .bool b)]
  | .int k n => Json.mkObj [("i", .arr #[.str k.name, .str (toString n)])]
  | .float k b => Json.mkObj [("f", .arr #[.str (if k == .f32 then "f32" else "f64"),
      .str (toHex16 (if F64.isNaN b then F64.nanBits else b))])]
  | .str s => Json.mkObj [("s", .str s)]
  | .bytes b => Json.mkObj [("y", .arr (b.map fun n => Json.num (JsonNumber.fromNat n)).toArray)]
  | .list xs => Json.mkObj [("l", .arr (xs.map encV).toArray)]
  | .map sh kvs => Json.mkObj [("m", .arr #[.str (keyTyName sh.key), .bool sh.valAny,
      .arr (kvs.map fun (k, v) => Json.arr #[encV k, encV v]).toArray])]
  | .named v => Json.mkObj [("n", encV v)]
  | .regex s => Json.mkObj [("re", .str s)]
  | .opaque => Json.mkObj [("o", .num 1)]

def decNames (j : Json) : R UnitNames := do
  let a ← j.getArr?
  return ⟨← getStr a[0]!, ← getStr a[1]!, ← getStr a[2]!, ← getStr a[3]!⟩

def decUnits (j : Json) : R Units := do
  let base ← decNames (← field j "base")
  let ms ← match fieldOpt j "mults" with
    | some a => a.getArr?
    | none => pure #[]
  let mults ← ms.toList.mapM fun e => do
    let p ← e.getArr?
    return (← parseDec (← getStr p[0]!), ← decNames p[1]!)
  return ⟨base, mults⟩

def optUnits (j : Json) : R (Option Units) :=
  match fieldOpt j "units" with
  | none => pure none
  | some u => do return some (← decUnits u)

def decKey (intKey : Bool) (j : Json) : R Key := do
  let s ← getStr j
  if intKey then return .i (← parseDec s) else return .s s

partial def decTy (j : Json) : R Ty := do
  let t ← getStr (← field j "t")
  match t with
  | "int" => return .int (← optDec j "min") (← optDec j "max") (← optUnits j)
  | "float" => return .float (← optHex j "min") (← optHex j "max") (← optUnits j)
  | "str" =>
    let pat := match fieldOpt j "pat" with
      | some (.str p) => some p
      | _ => none
    return .str (← optDec j "min") (← optDec j "max") pat
  | "bool" => return .bool
  | "pattern" => return .pattern
  | "enumInt" =>
    let a ← arrField j "vals"
    return .enumInt (← a.toList.mapM fun x => do parseDec (← getStr x)) (← optUnits j)
  | "enumStr" =>
    let a ← arrField j "vals"
    return .enumStr (← a.toList.mapM getStr)
  | "list" => return .list (← decTy (← field j "item")) (← optDec j "min") (← optDec j "max")
  | "map" => return .map (← decTy (← field j "k")) (← decTy (← field j "v")) (← optDec j "min") (← optDec j "max")
  | "obj" =>
    let id ← getStr (← field j "id")
    let ps ← arrField j "props"
    let props ← ps.toList.mapM fun e => do
      let p ← e.getArr?
      let name ← getStr p[0]!
      let pj := p[1]!
      let ty ← decTy (← field pj "ty")
      let dflt ← match fieldOpt pj "default" with
        | none => pure none
        | some d => do
          let d1 ← match fieldOpt d "d1" with
            | some w => do pure (some (← decV (← field w "v")))
            | none => pure none
          let d2 ← match fieldOpt d "d2" with
            | some w => do pure (some (← decV (← field w "v")))
            | none => pure none
          pure (some (DefaultV.mk d1 d2))
      return (name, PropT.mk ty (getBool pj "required") (← strList pj "requiredIf")
        (← strList pj "requiredIfNot") (← strList pj "conflicts") dflt (getBool pj "disabled"))
    return .obj id props
  | "oneOf" =>
    let intKey := getBool j "intKey"
    let ms ← arrField j "members"
    let members ← ms.toList.mapM fun e => do
      let p ← e.getArr?
      return (← decKey intKey p[0]!, ← decTy p[1]!)
    return .oneOf intKey (← getStr (← field j "disc")) (getBool j "inlined") members
  | "ref" => return .ref (← getStr (← field j "id"))
  | "scope" =>
    let os ← arrField j "objs"
    let objs ← os.toList.mapM fun e => do
      let p ← e.getArr?
      return (← getStr p[0]!, ← decTy p[1]!)
    return .scope objs (← getStr (← field j "root"))
  | "any" => return .any
  | _ => throw s!"bad type {t}"

/-- finite tables of the external functions, shipped with each case -/
def decExt (j : Json) : R Ext := do
  let pf : List (String × Option Nat) ← match fieldOpt j "pf" with
    | none => pure []
    | some a => do
      (← a.getArr?).toList.mapM fun e => do
        let p ← e.getArr?
        let r ← match p[1]! with
          | .null => pure none
          | v => do pure (some (← parseHex (← getStr v)))
        return (← getStr p[0]!, r)
  let ff : List (Nat × String) ← match fieldOpt j "ff" with
    | none => pure []
    | some a => do
      (← a.getArr?).toList.mapM fun e => do
        let p ← e.getArr?
        return (← parseHex (← getStr p[0]!), ← getStr p[1]!)
  let rc : List (String × Bool) ← match fieldOpt j "rc" with
    | none => pure []
    | some a => do
      (← a.getArr?).toList.mapM fun e => do
        let p ← e.getArr?
        return (← getStr p[0]!, ← p[1]!.getBool?)
  let rm : List (String × String × Bool) ← match fieldOpt j "rm" with
    | none => pure []
    | some a => do
      (← a.getArr?).toList.mapM fun e => do
        let p ← e.getArr?
        return (← getStr p[0]!, ← getStr p[1]!, ← p[2]!.getBool?)
  return {
    parseFloat := fun s => match pf.find? (·.1 == s) with
      | some (_, r) => r
      | none => none
    fmtF := fun b => match ff.find? (·.1 == b) with
      | some (_, r) => r
      | none => "<MISSING-fmtF>"
    reCompiles := fun s => match rc.find? (·.1 == s) with
      | some (_, r) => r
      | none => false
    reMatch := fun p s => match rm.find? (fun (p', s', _) => p' == p && s' == s) with
      | some (_, _, r) => r
      | none => false
  }

def encOut (o : Out V) : Json :=
  match o with
  | .ok v => Json.mkObj [("r", "ok"), ("v", encV v)]
  | .err e => Json.mkObj [("r", "err"), ("c", .bool e.constraint),
      ("path", .arr (e.path.map Json.str).toArray)]
  | .panic => Json.mkObj [("r", "panic")]
  | .fuel => Json.mkObj [("r", "fuel")]

def opOf : String → Option Op
  | "U" => some .U | "V" => some .V | "S" => some .S | "C" => some .C | _ => none

def handleSchemaOp (j : Json) (op : Op) : R Json := do
  let ty ← decTy (← field j "schema")
  let v ← decV (← field j "v")
  let ext ← match fieldOpt j "ext" with
    | some e => decExt e
    | none => decExt (Json.mkObj [])
  let fuel := match fieldOpt j "fuel" with
    | some (.num n) => n.mantissa.toNat
    | _ => 200
  return encOut (run ext fuel op [] ty v)

def handleCompatS (j : Json) : R Json := do
  let s ← decTy (← field j "schema")
  let o ← decTy (← field j "schema2")
  let fuel := match fieldOpt j "fuel" with
    | some (.num n) => n.mantissa.toNat
    | _ => 200
  return match compatS fuel [] [] s o with
    | .ok () => Json.mkObj [("r", "ok"), ("v", .null)]
    | .err e => Json.mkObj [("r", "err"), ("c", .bool e.constraint), ("path", .arr (e.path.map Json.str).toArray)]
    | .panic => Json.mkObj [("r", "panic")]
    | .fuel => Json.mkObj [("r", "fuel")]

/-- handler of the schema operations; other models register their own in `Driver.lean` -/
def schemaHandler (op : String) (j : Json) : Option (R Json) :=
  if op == "CS" then some (handleCompatS j) else (opOf op).map (handleSchemaOp j)

def handleWith (handlers : List (String → Json → Option (R Json))) (j : Json) : Json :=
  let r : R Json := do
    let op ← getStr (← field j "op")
    match handlers.findSome? (fun h => h op j) with
    | some r => r
    | none => throw s!"unknown op {op}"
  match r with
  | .ok out => out
  | .error e => Json.mkObj [("r", "bad"), ("msg", e)]

end Arca.Dispatch
