import ArcaModel.Model.Basic
/-
  Go values as the SDK sees them (what `reflect` can tell apart), and the schema tree.
-/
namespace Arca

/-- static key type of a Go map value -/
inductive KeyTy where
  | any | string | int64 | other
deriving DecidableEq, Repr, Inhabited

/-- the concrete Go map type, as far as the SDK's type assertions can tell:
    `map[string]any` = ⟨string, true⟩, `map[any]any` = ⟨any, true⟩. -/
structure MapShape where
  key : KeyTy
  valAny : Bool
deriving DecidableEq, Repr, Inhabited

def MapShape.strAny : MapShape := ⟨.string, true⟩
def MapShape.anyAny : MapShape := ⟨.any, true⟩

/-- A Go value of dynamic type:
    * `named v`   : a defined type whose underlying type is that of the scalar `v` (`type MyStr string`)
    * `bytes`     : `[]byte`
    * `list`      : any other slice (`[]any`, `[]int64`, ...); elements carry their own dynamic type
    * `regex`     : non-nil `*regexp.Regexp`, by source text
    * `opaque`    : values of kind struct, pointer (incl. typed nil), func, chan, array, complex -
                    `cbor.Tag`, `big.Int`, `time.Time`, foreign structs -/
inductive V where
  | nil
  | bool (b : Bool)
  | int (k : IKind) (n : Int)
  | float (k : FKind) (bits : Nat)
  | str (s : String)
  | bytes (b : List Nat)
  | list (xs : List V)
  | map (sh : MapShape) (kvs : List (V × V))
  | named (v : V)
  | regex (src : String)
  | opaque
deriving Repr, Inhabited

/-- units definition: base unit names and multipliers with their names
    (short singular, short plural, long singular, long plural) -/
structure UnitNames where
  ss : String
  sp : String
  ls : String
  lp : String
deriving DecidableEq, Repr, Inhabited

structure Units where
  base : UnitNames
  mults : List (Int × UnitNames)
deriving DecidableEq, Repr, Inhabited

/-- A property default: the JSON text as decoded by `encoding/json` into `any`
    (`d1`), and the decoding of the text wrapped in double quotes (`d2`, the fallback the SDK
    applies for string-typed properties). Both are externals supplied by the harness. -/
structure DefaultV where
  d1 : Option V
  d2 : Option V
deriving Repr, Inhabited

/-- native map keys and one-of discriminators compare as int64 or string -/
inductive Key where
  | i (n : Int)
  | s (s : String)
deriving DecidableEq, Repr, Inhabited

mutual
inductive Ty where
  | int (min max : Option Int) (units : Option Units)
  | float (min max : Option Nat) (units : Option Units)
  | str (min max : Option Int) (pat : Option String)
  | bool
  | pattern
  | enumInt (vals : List Int) (units : Option Units)
  | enumStr (vals : List String)
  | list (item : Ty) (min max : Option Int)
  | map (k v : Ty) (min max : Option Int)
  | obj (id : String) (props : List (String × PropT))
  | oneOf (intKey : Bool) (disc : String) (inlined : Bool) (members : List (Key × Ty))
  | ref (id : String)
  | scope (objs : List (String × Ty)) (root : String)
  | any
inductive PropT where
  | mk (ty : Ty) (required : Bool) (requiredIf requiredIfNot conflicts : List String)
       (default : Option DefaultV) (disabled : Bool)
end

instance : Inhabited Ty := ⟨.any⟩
instance : Inhabited PropT := ⟨.mk .any false [] [] [] none false⟩

namespace PropT
def ty : PropT → Ty | mk t _ _ _ _ _ _ => t
def required : PropT → Bool | mk _ r _ _ _ _ _ => r
def requiredIf : PropT → List String | mk _ _ r _ _ _ _ => r
def requiredIfNot : PropT → List String | mk _ _ _ r _ _ _ => r
def conflicts : PropT → List String | mk _ _ _ _ c _ _ => c
def default : PropT → Option DefaultV | mk _ _ _ _ _ d _ => d
def disabled : PropT → Bool | mk _ _ _ _ _ _ d => d
end PropT

/-- the objects of the nearest enclosing scope (what self-namespace references are linked to) -/
abbrev Env := List (String × Ty)

/-- External library functions, supplied per case by the harness from the very calls the SDK makes. -/
structure Ext where
  /-- `strconv.ParseFloat(s, 64)`: bits, or none on error -/
  parseFloat : String → Option Nat
  /-- `fmt.Sprintf("%f", x)` by bits -/
  fmtF : Nat → String
  /-- `regexp.Compile(s)` succeeds -/
  reCompiles : String → Bool
  /-- `regexp.MustCompile(p).MatchString(s)` -/
  reMatch : String → String → Bool

end Arca
