import Lean.Data.Json
import ArcaModel.Model.Dispatch
import ArcaModel.Model.Units
/-
  Line-protocol handler of the units model (property C16):
    UNITS_FMT     {"units":U,"n":"<decimal>","long":bool}      → {"r":"ok","v":{"s":"<text>"}}
    UNITS_PARSE   {"units":U,"s":"<text>"}                     → {"r":"ok","v":{"int":"<decimal>"}} | {"r":"err"}
    UNITS_PARSEF  {"units":U,"s":"<text>","ext":{"pf":[...]}}  → {"r":"ok","v":{"bits":"<16 hex>"}} | {"r":"err"}
  `U` is the JSON form read by `Dispatch.decUnits`, `ext` the one read by `Dispatch.decExt`.
  (Executable glue only; nothing here is used in a theorem.)
-/
open Lean

namespace Arca.Dispatch

def okV (fields : List (String × Json)) : Json :=
  Json.mkObj [("r", "ok"), ("v", Json.mkObj fields)]

def errJ : Json := Json.mkObj [("r", "err")]

def unitsHandler (op : String) (j : Json) : Option (R Json) :=
  match op with
  | "UNITS_FMT" => some do
    let u ← decUnits (← field j "units")
    let n ← parseDec (← getStr (← field j "n"))
    let s := if getBool j "long" then u.formatLongInt n else u.formatShortInt n
    return okV [("s", .str s)]
  | "UNITS_PARSE" => some do
    let u ← decUnits (← field j "units")
    let s ← getStr (← field j "s")
    match u.parseInt s with
    | some n => return okV [("int", .str (toString n))]
    | none => return errJ
  | "UNITS_PARSEF" => some do
    let u ← decUnits (← field j "units")
    let s ← getStr (← field j "s")
    let ext ← match fieldOpt j "ext" with
      | some e => decExt e
      | none => decExt (Json.mkObj [])
    match u.parseFloat ext s with
    | some b => return okV [("bits", .str (toHex16 (if F64.isNaN b then F64.nanBits else b)))]
    | none => return errJ
  | _ => none

end Arca.Dispatch
