import ArcaModel.Model.Value
/-
  Scalar conversions of the SDK: the three lenient "input mappers" (exact type switches), the
  reflective `asInt/asFloat/asString/asBool` conversions used by Validate/Serialize, decimal
  integer parsing (`strconv.ParseInt(s, 10, 64)`) and boolean words.
-/
namespace Arca

/-! ### strconv.ParseInt(s, 10, 64) and %d -/

def digitVal? (c : Char) : Option Nat :=
  if '0' ≤ c && c ≤ '9' then some (c.toNat - '0'.toNat) else none

def isDigit (c : Char) : Bool := '0' ≤ c && c ≤ '9'

/-- value of a list of decimal digits, `none` if any char is not a digit or the list is empty -/
def readNatAux : List Char → Nat → Option Nat
  | [], acc => some acc
  | c :: cs, acc => match digitVal? c with
    | some d => readNatAux cs (acc * 10 + d)
    | none => none

def readNat (cs : List Char) : Option Nat :=
  match cs with
  | [] => none
  | _ => readNatAux cs 0

/-- `strconv.ParseInt(s, 10, 64)`; `none` on syntax or range error -/
def parseInt10 (s : String) : Option Int :=
  let r : Option Int := match s.toList with
    | '-' :: cs => (readNat cs).map (fun n => -(n : Int))
    | '+' :: cs => (readNat cs).map (fun n => (n : Int))
    | cs => (readNat cs).map (fun n => (n : Int))
  match r with
  | some v => if inInt64 v then some v else none
  | none => none

/-- `fmt.Sprintf("%d", n)` -/
def fmtInt (n : Int) : String := toString n

/-! ### units (integer side; see Units.lean for formatting) -/

/-- `\s` of RE2: ASCII white space -/
def isReWS (c : Char) : Bool := c == ' ' || c == '\t' || c == '\n' || c == '\x0c' || c == '\r'

/-- `unicode.IsSpace` (what `strings.TrimSpace` trims) -/
def isUniSpace (c : Char) : Bool :=
  let n := c.toNat
  (9 ≤ n && n ≤ 13) || n == 0x20 || n == 0x85 || n == 0xA0 || n == 0x1680 ||
  (0x2000 ≤ n && n ≤ 0x200A) || n == 0x2028 || n == 0x2029 || n == 0x202F || n == 0x205F || n == 0x3000

def skipWS (cs : List Char) : List Char := cs.dropWhile isReWS

def trimSpace (cs : List Char) : List Char :=
  ((cs.dropWhile isUniSpace).reverse.dropWhile isUniSpace).reverse

def stripPrefix? : List Char → List Char → Option (List Char)
  | [], cs => some cs
  | _ :: _, [] => none
  | p :: ps, c :: cs => if p == c then stripPrefix? ps cs else none

def firstSome {α β} : List α → (α → Option β) → Option β
  | [], _ => none
  | x :: xs, f => match f x with
    | some b => some b
    | none => firstSome xs f

def UnitNames.all (u : UnitNames) : List String := [u.ss, u.sp, u.ls, u.lp]

/-- counts `len, len-1, ..., 1` -/
def countsDown : Nat → List Nat
  | 0 => []
  | n + 1 => (n + 1) :: countsDown n

/-- Match of the base group and the end of the pattern:
    `(?:|(?P<g1>[0-9]+(|\.[0-9]+))\s*(|n1|n2|n3|n4))\s*$`; returns the text captured as g1. -/
def matchBase (names : List String) (cs : List Char) : Option String :=
  -- first alternative: empty
  if (skipWS cs).isEmpty then some "" else
  let ds := cs.takeWhile isDigit
  let rest := cs.dropWhile isDigit
  firstSome (countsDown ds.length) fun k =>
    let intPart := ds.take k
    let r := ds.drop k ++ rest
    -- `(|\.[0-9]+)`: empty first, then a fraction (greedy digits, backtracking)
    let tryTail (cap : List Char) (r : List Char) : Option String :=
      let r := skipWS r
      -- `(|names)`: empty name first
      if (skipWS r).isEmpty then some (String.ofList cap) else
      firstSome names fun n =>
        match stripPrefix? n.toList r with
        | some r' => if (skipWS r').isEmpty then some (String.ofList cap) else none
        | none => none
    match tryTail intPart r with
    | some c => some c
    | none =>
      match r with
      | '.' :: r1 =>
        let fs := r1.takeWhile isDigit
        let rest1 := r1.dropWhile isDigit
        firstSome (countsDown fs.length) fun j =>
          tryTail (intPart ++ '.' :: fs.take j) (fs.drop j ++ rest1)
      | _ => none

/-- Leftmost-first match of the multiplier groups (largest first), then the base group.
    The input is already white-space skipped. Result: captured digit strings per group, and g1. -/
def matchGroups : List (List String) → List String → List Char → Option (List String × String)
  | [], base, cs => (matchBase base cs).map fun b => ([], b)
  | names :: gs, base, cs =>
    match matchGroups gs base (skipWS cs) with
    | some (caps, b) => some ("" :: caps, b)
    | none =>
      let ds := cs.takeWhile isDigit
      let rest := cs.dropWhile isDigit
      firstSome (countsDown ds.length) fun k =>
        let r := skipWS (ds.drop k ++ rest)
        firstSome names fun n =>
          match stripPrefix? n.toList r with
          | some r' =>
            match matchGroups gs base (skipWS r') with
            | some (caps, b) => some (String.ofList (ds.take k) :: caps, b)
            | none => none
          | none => none

/-- insertion sort, descending by multiplier (`sort.SliceStable` with `>`) -/
def insertDesc (x : Int × UnitNames) : List (Int × UnitNames) → List (Int × UnitNames)
  | [] => [x]
  | y :: ys => if x.1 > y.1 then x :: y :: ys else y :: insertDesc x ys

def sortDesc (xs : List (Int × UnitNames)) : List (Int × UnitNames) :=
  xs.foldr insertDesc []

/-- checked int64 accumulation `acc + i * mult` -/
def accInt (acc i mult : Int) : Option Int :=
  let p := i * mult
  if !inInt64 p then none else
  let s := acc + p
  if !inInt64 s then none else some s

/-- `UnitsDefinition.ParseInt`: `none` = an error is returned -/
def Units.parseInt (u : Units) (s : String) : Option Int :=
  let cs := trimSpace s.toList
  if cs.isEmpty then none else
  let sorted := sortDesc u.mults
  match matchGroups (sorted.map (·.2.all)) u.base.all (skipWS cs) with
  | none => none
  | some (caps, b) =>
    -- accumulate the multiplier groups, then the base group; a capture with '.' is a float
    let rec go : List String → List Int → Int → Option Int
      | c :: cs, m :: ms, acc =>
        if c.isEmpty then go cs ms acc else
        match parseInt10 c with
        | none => none
        | some i => match accInt acc i m with
          | none => none
          | some a => go cs ms a
      | _, _, acc => some acc
    match go caps (sorted.map (·.1)) 0 with
    | none => none
    | some acc =>
      if b.isEmpty then some acc
      else if b.toList.contains '.' then none
      else match parseInt10 b with
        | none => none
        | some i => accInt acc i 1

/-- `UnitsDefinition.ParseFloat` -/
def Units.parseFloat (u : Units) (x : Ext) (s : String) : Option Nat :=
  let cs := trimSpace s.toList
  if cs.isEmpty then none else
  let sorted := sortDesc u.mults
  match matchGroups (sorted.map (·.2.all)) u.base.all (skipWS cs) with
  | none => none
  | some (caps, b) =>
    -- integer captures: `floatNumber += float64(i * multiplier)`, `intNumber += i * multiplier`
    let rec go : List String → List Int → Int → Nat → Option (Int × Nat)
      | c :: cs, m :: ms, acc, facc =>
        if c.isEmpty then go cs ms acc facc else
        match parseInt10 c with
        | none => none
        | some i =>
          if !inInt64 (i * m) then none else
          match accInt acc i m with
          | none => none
          | some a => go cs ms a (F64.add facc (F64.ofInt (i * m)))
      | _, _, acc, facc => some (acc, facc)
    match go caps (sorted.map (·.1)) 0 0 with
    | none => none
    | some (acc, facc) =>
      if b.isEmpty then some (F64.ofInt acc)
      else if b.toList.contains '.' then
        match x.parseFloat b with
        | none => none
        | some f => some (F64.add facc (F64.mul f (F64.ofInt 1)))
      else match parseInt10 b with
        | none => none
        | some i => (accInt acc i 1).map F64.ofInt

/-! ### boolean words -/

def goLowerChar (c : Char) : Char :=
  if c.toNat == 0x130 then 'i' else if c.toNat == 0x212A then 'k' else
  if 'A' ≤ c && c ≤ 'Z' then Char.ofNat (c.toNat + 32) else c

def boolWords : List (String × Bool) :=
  [("1", true), ("yes", true), ("y", true), ("on", true), ("true", true), ("enable", true),
   ("enabled", true), ("0", false), ("no", false), ("n", false), ("off", false), ("false", false),
   ("disable", false), ("disabled", false)]

def boolOfWord (s : String) : Option Bool :=
  (boolWords.find? (·.1 == String.ofList (s.toList.map goLowerChar))).map (·.2)

/-! ### the input mappers (exact type switches: a named type never matches) -/

/-- `intInputMapper` -/
def intInputMapper (u : Option Units) : V → Out Int
  | .str s => match u with
    | some u => match u.parseInt s with
      | some n => .ok n
      | none => .plain
    | none => match parseInt10 s with
      | some n => .ok n
      | none => .plain
  | .int _ n =>
    -- only uint/uint64 values can exceed int64 (`v > math.MaxInt64`); a Go integer of any kind is
    -- never below MinInt64, so the lower half of this test is vacuous on real values
    if inInt64 n then .ok n else .plain
  | .float _ b => match F64.toInt64Exact b with
    | some n => .ok n
    | none => .plain
  | .bool b => .ok (if b then 1 else 0)
  | _ => .plain

/-- `stringInputMapper` -/
def stringInputMapper (x : Ext) : V → Out String
  | .str s => .ok s
  | .int _ n => .ok (fmtInt n)
  | .float _ b => .ok (x.fmtF b)
  | _ => .plain

/-- `BoolSchema.Unserialize` -/
def boolInputMapper : V → Out Bool
  | .bool b => .ok b
  | .str s => match boolOfWord s with
    | some b => .ok b
    | none => .cerr
  | .int _ n =>
    let w := wrapInt64 n
    if w == 1 then .ok true else if w == 0 then .ok false else .cerr
  | _ => .cerr

/-! ### reflective conversions used by Validate / Serialize -/

/-- underlying scalar of a possibly named value (what `reflect.Value.Kind` and `Convert` see) -/
def V.under : V → V
  | .named v => v
  | v => v

/-- `string(rune(n))` as `reflect` does it -/
def runeString (n : Int) : String :=
  if 0 ≤ n && n ≤ 0x10FFFF && !(0xD800 ≤ n && n ≤ 0xDFFF) then String.singleton (Char.ofNat n.toNat)
  else "�"

/-- `asInt`: anything convertible to int64 by `reflect` -/
def asInt (v : V) : Out Int :=
  match v.under with
  | .int _ n => .ok (wrapInt64 n)
  | .float _ b => .ok (F64.truncInt64 b)
  | _ => .cerr

/-- `asFloat` -/
def asFloat (v : V) : Out Nat :=
  match v.under with
  | .int _ n => .ok (F64.ofInt n)
  | .float _ b => .ok b
  | _ => .cerr

/-- `asString`: strings, integers (as runes) and byte slices convert -/
def asString (v : V) : Out String :=
  match v.under with
  | .str s => .ok s
  | .int _ n => .ok (runeString n)
  | .bytes b => .ok (String.ofList (b.map Char.ofNat))
  | _ => .cerr

/-- `asBool` -/
def asBool (v : V) : Out Bool :=
  match v.under with
  | .bool b => .ok b
  | _ => .cerr

end Arca
