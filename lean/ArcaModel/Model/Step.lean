import ArcaModel.Model.Ops
/-
  Step and signal calls (property C11).

  `callStep` / `callSignal` mirror `CallableSchema.CallStep` / `CallableSchema.CallSignal`
  (schema/schema.go) together with `CallableStepSchema.Call` / `.CallSignal` (schema/step.go) and
  `CallableSignalSchema.Call` (schema/signal.go), path by path, for steps whose handler input type
  is `any` (map-based schemas; that is what `Ty`/`V` describe). The second component of the result
  is the list of values the handler was invoked with, in order.

  `StepData` is the labelled transition system of the per-run step data (`setupStepData` and the
  map `stepData` of one `CallableStepSchema`).

  Core Lean only (linked into the native driver).
-/
namespace Arca.Step

/-- A step as the call path sees it: input scope, declared outputs (`OutputsValue`) and signal
    handlers (`SignalHandlersValue`, by data schema). The lists stand for Go maps: lookup by key. -/
structure StepD where
  input : Ty
  outputs : List (String × Ty)
  signals : List (String × Ty)
deriving Inhabited

/-- `CallableSchema.StepsValue`: map from step ID to step. -/
abbrev Plugin := List (String × StepD)

/-- What a step handler `func(ctx, stepData, input) (string, any)` can do with an input: panic
    (`none`) or return an output ID and output data. (It has no error result.) -/
abbrev HandlerBeh := V → Option (String × V)

/-- What a signal handler `func(ctx, stepData, input)` can do: return (`true`) or panic. -/
abbrev SignalBeh := V → Bool

/-- Which error a call returns. The Go type is given in brackets; it is all a caller can test. -/
inductive ErrKind where
  /-- no step of that ID [`BadArgumentError`] -/
  | unknownStep
  /-- the step has no signal handler of that ID [`BadArgumentError`] -/
  | unknownSignal
  /-- `Unserialize` of the raw input failed, or `Validate` of its result did [`InvalidInputError`] -/
  | invalidInput
  /-- the handler returned an output ID that is not declared [`InvalidOutputError`] -/
  | undeclaredOutput
  /-- the output data fails `Validate` of the declared output schema
      [the schema's own error, unwrapped, e.g. `*ConstraintError`] -/
  | invalidOutput
  /-- the output data passed `Validate` but `Serialize` failed [`InvalidOutputError`] -/
  | unserializableOutput
deriving DecidableEq, Repr, Inhabited

/-- Result of `CallStep`. -/
inductive StepOut where
  | ok (outputID : String) (data : V)
  | err (k : ErrKind)
  | panic
  | fuel
deriving Repr, Inhabited

/-- Result of `CallSignal`. -/
inductive SigOut where
  | ok
  | err (k : ErrKind)
  | panic
  | fuel
deriving Repr, Inhabited

/-- The unchecked assertion `input.(InputType)` with `InputType = any` panics exactly on the nil
    interface. -/
def isNilV : V → Bool
  | .nil => true
  | _ => false

/-- The part of `CallStep` after `step.Call` returned without error: the output is looked up
    again (repaired: checked) and the data serialized. -/
def serializeOutput (x : Ext) (fuel : Nat) (st : StepD) (oid : String) (d : V) (calls : List V) :
    StepOut × List V :=
  match lookupS oid st.outputs with
  | none => (.err .undeclaredOutput, calls)
  | some ot =>
    match run x fuel .S [] ot d with
    | .ok w => (.ok oid w, calls)
    | .err _ => (.err .unserializableOutput, calls)
    | .panic => (.panic, calls)
    | .fuel => (.fuel, calls)

/-- `CallableStepSchema.Call` followed by the rest of `CallStep`:
    Validate the (unserialized) input, `setupStepData`, assert the input type, run the handler,
    check the output ID, Validate the output data; then Serialize. -/
def stepCall (x : Ext) (fuel : Nat) (st : StepD) (beh : HandlerBeh) (v : V) : StepOut × List V :=
  match run x fuel .V [] st.input v with
  | .err _ => (.err .invalidInput, [])
  | .panic => (.panic, [])
  | .fuel => (.fuel, [])
  | .ok _ =>
    if isNilV v then (.panic, []) else
    match beh v with
    | none => (.panic, [v])
    | some (oid, d) =>
      match lookupS oid st.outputs with
      | none => (.err .undeclaredOutput, [v])
      | some ot =>
        match run x fuel .V [] ot d with
        | .err _ => (.err .invalidOutput, [v])
        | .panic => (.panic, [v])
        | .fuel => (.fuel, [v])
        | .ok _ => serializeOutput x fuel st oid d [v]

/-- `CallableSchema.CallStep(ctx, runID, stepID, raw)`. `beh id` is the handler of step `id`. -/
def callStep (x : Ext) (fuel : Nat) (p : Plugin) (beh : String → HandlerBeh) (stepID : String) (raw : V) :
    StepOut × List V :=
  match lookupS stepID p with
  | none => (.err .unknownStep, [])
  | some st =>
    match run x fuel .U [] st.input raw with
    | .err _ => (.err .invalidInput, [])
    | .panic => (.panic, [])
    | .fuel => (.fuel, [])
    | .ok v => stepCall x fuel st (beh stepID) v

/-- `CallableStepSchema.CallSignal` and `CallableSignalSchema.Call`: the handler is looked up
    (repaired: checked), `setupStepData`, Validate the input, assert its type, run the handler. -/
def signalCall (x : Ext) (fuel : Nat) (st : StepD) (sigID : String) (sbeh : SignalBeh) (v : V) :
    SigOut × List V :=
  match lookupS sigID st.signals with
  | none => (.err .unknownSignal, [])
  | some dt =>
    match run x fuel .V [] dt v with
    | .err _ => (.err .invalidInput, [])
    | .panic => (.panic, [])
    | .fuel => (.fuel, [])
    | .ok _ =>
      if isNilV v then (.panic, []) else
      if sbeh v then (.ok, [v]) else (.panic, [v])

/-- `CallableSchema.CallSignal(ctx, runID, stepID, signalID, raw)`.
    `sbeh step signal` is the handler of that signal. -/
def callSignal (x : Ext) (fuel : Nat) (p : Plugin) (sbeh : String → String → SignalBeh)
    (stepID sigID : String) (raw : V) : SigOut × List V :=
  match lookupS stepID p with
  | none => (.err .unknownStep, [])
  | some st =>
    match lookupS sigID st.signals with
    | none => (.err .unknownSignal, [])
    | some dt =>
      match run x fuel .U [] dt raw with
      | .err _ => (.err .invalidInput, [])
      | .panic => (.panic, [])
      | .fuel => (.fuel, [])
      | .ok v => signalCall x fuel st sigID (sbeh stepID sigID) v

/-! ### the per-run step data

One `CallableStepSchema` owns `stepData : map[runID]*runningStepData`, written only inside
`setupStepData`, whose whole body runs under `initializerMutex`: look the run ID up; if absent call
the initialiser (if there is one) and insert. That critical section is ONE atomic action here.
What is not atomic: a call first leaves `setupStepData` with the entry it found or made
(`stepArrives` / `signalArrives`), and some time later invokes its handler with the data of that
entry (`invoke`); any number of actions of other calls may happen in between. Entries are never
removed or replaced.

The identity of a step-data object is the ordinal of the initialiser call that made it (an
initialiser returns a fresh object); without an initialiser the data is the zero value (`none`). -/

abbrev Data := Option Nat

inductive Who where
  | step
  | signal (id : String)
deriving DecidableEq, Repr, Inhabited

/-- a call that has left `setupStepData` -/
structure Call where
  who : Who
  run : String
  data : Data
deriving DecidableEq, Repr, Inhabited

structure St where
  /-- `s.stepData` -/
  store : List (String × Data)
  /-- number of initialiser calls so far -/
  next : Nat
  /-- ghost: the initialiser calls, with the run ID each was made for -/
  inits : List (String × Nat)
  /-- calls between `setupStepData` and the handler invocation -/
  pending : List Call
  /-- ghost: handler invocations with the step data passed to them -/
  seen : List Call
deriving Repr, Inhabited

def St.init : St := ⟨[], 0, [], [], []⟩

/-- `setupStepData(runID)`: the critical section as a whole. -/
def setup (hasInit : Bool) (σ : St) (r : String) : St × Data :=
  match lookupS r σ.store with
  | some d => (σ, d)
  | none =>
    if hasInit then
      ({ σ with store := (r, some σ.next) :: σ.store, next := σ.next + 1,
                inits := (r, σ.next) :: σ.inits }, some σ.next)
    else ({ σ with store := (r, none) :: σ.store }, none)

inductive Act where
  /-- a step call for run `r` passes through `setupStepData` -/
  | stepArrives (r : String)
  /-- a call of signal `s` for run `r` passes through `setupStepData` -/
  | signalArrives (r s : String)
  /-- the `i`-th pending call invokes its handler -/
  | invoke (i : Nat)
deriving DecidableEq, Repr, Inhabited

def removeNth {α} : List α → Nat → List α
  | [], _ => []
  | _ :: xs, 0 => xs
  | y :: xs, n + 1 => y :: removeNth xs n

def apply (hasInit : Bool) (σ : St) : Act → St
  | .stepArrives r =>
    let (σ', d) := setup hasInit σ r
    { σ' with pending := σ'.pending ++ [⟨.step, r, d⟩] }
  | .signalArrives r s =>
    let (σ', d) := setup hasInit σ r
    { σ' with pending := σ'.pending ++ [⟨.signal s, r, d⟩] }
  | .invoke i =>
    match σ.pending[i]? with
    | none => σ
    | some c => { σ with pending := removeNth σ.pending i, seen := σ.seen ++ [c] }

/-- the state after a history of actions -/
def exec (hasInit : Bool) (acts : List Act) : St := acts.foldl (apply hasInit) St.init

end Arca.Step
